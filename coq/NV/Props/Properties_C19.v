(* C19 -- compilation is a function of the source: outputs are reproducible.
   In Gallina every model is a function, so "same input, same output" is vacuous here; what IS provable is the
   independence of the outputs from hidden state.  Three theorems (the rest of C19 is the configuration sweep of
   tools/props/c19.py and is reported as a sweep, not as proof):
     serialize_ignores_buffer  every byte of the .nvm image is written by nvm_serialize, none is inherited from the buffer
     encode_ignores_padding    isa_encode's bytes do not depend on the unused operand slots / union padding / count fields
     pool_order_is_first_use   string-pool indices depend only on the order of first insertion
   [ser_consts] = NV.gen.SerConsts (from nvm_format.h), [table] = NV.gen.IsaTable (from isa.c), regenerated on every run. *)
From Coq Require Import NArith List Bool.
From NV Require Import Base.Bytes Isa.Codec Nvm.SerializeBuf Nvm.SerializeBufProofs gen.SerConsts gen.IsaTable.
Import ListNotations.

(* the header/entry sizes the C computes its offsets from are the widths its helpers actually write *)
Theorem C19_consts_ok : consts_ok ser_consts.
Proof. vm_compute. repeat split; reflexivity. Qed.
Print Assumptions C19_consts_ok.

(* for ANY crc function, ANY module whose imports carry their parameter types, and ANY two initial buffer contents:
   same bytes out, and the write sequence never leaves the buffer *)
Theorem C19_serialize_ignores_buffer : forall crc m init1 init2,
  imports_complete m -> length init1 = total_size ser_consts m -> length init2 = total_size ser_consts m ->
  serialize_into crc ser_consts init1 m = serialize_into crc ser_consts init2 m /\
  exists out, serialize_into crc ser_consts init1 m = Some out /\ length out = total_size ser_consts m.
Proof. exact (fun crc m i1 i2 => serialize_ignores_buffer crc ser_consts m i1 i2 C19_consts_ok). Qed.
Print Assumptions C19_serialize_ignores_buffer.

(* ... so the calloc'ed buffer of the C is just one instance *)
Theorem C19_serialize_is_any_buffer : forall crc m init,
  imports_complete m -> length init = total_size ser_consts m ->
  serialize_into crc ser_consts init m = serialize crc ser_consts m.
Proof. exact (fun crc m i => serialize_is_any_buffer crc ser_consts m i C19_consts_ok). Qed.
Print Assumptions C19_serialize_is_any_buffer.

(* the hypothesis [imports_complete] is necessary: nvm_add_import(param_count > 0, param_types == NULL) stores a NULL
   pointer, serialize_imports then skips the memcpy but advances, and those bytes ARE inherited from the buffer.
   The C is deterministic there only because its buffer comes from calloc. *)
Theorem C19_serialize_hole_inherits :
  let m := {| m_flags := 0; m_entry := 0; m_strings := []; m_code := []; m_fns := []; m_dbg := [];
              m_imps := [ {| i_mod := 0; i_fn := 1; i_pcount := 2; i_ret := 0; i_ptypes := None |} ] |} in
  serialize_into crc32 ser_consts (repeat 0%N (total_size ser_consts m)) m <>
  serialize_into crc32 ser_consts (repeat 170%N (total_size ser_consts m)) m.
Proof. vm_compute. discriminate. Qed.
Print Assumptions C19_serialize_hole_inherits.

(* isa_encode reads the opcode and, per operand kind of the table, the low ksize bytes of slot i: nothing else of the
   DecodedInstruction (operand_count, higher union bytes, slots beyond the operand count, operand_types, byte_length) *)
Theorem C19_encode_ignores_padding : forall r1 r2,
  r_op r1 = r_op r2 ->
  (forall ks, table (r_op r1) = Some ks -> same_low ks (r_slots r1) (r_slots r2)) ->
  encode_raw table r1 = encode_raw table r2.
Proof. exact (encode_ignores_padding table). Qed.
Print Assumptions C19_encode_ignores_padding.

(* the pool is the sequence of distinct strings in order of first use; two call sequences with the same first-use order
   build the same pool and hand out the same index for the same string, wherever and however often it is re-added *)
Theorem C19_pool_order_is_first_use : forall ss1 ss2 p1 i1 p2 i2,
  add_all [] ss1 = (p1, i1) -> add_all [] ss2 = (p2, i2) ->
  first_uses [] ss1 = first_uses [] ss2 ->
  p1 = p2 /\
  forall j1 j2 s, nth_error ss1 j1 = Some s -> nth_error ss2 j2 = Some s -> nth_error i1 j1 = nth_error i2 j2.
Proof. exact pool_order_is_first_use. Qed.
Print Assumptions C19_pool_order_is_first_use.

Theorem C19_pool_is_first_uses : forall ss p is_, add_all [] ss = (p, is_) -> p = first_uses [] ss.
Proof. exact pool_is_first_uses. Qed.
Print Assumptions C19_pool_is_first_uses.

(* non-vacuity: a module with every section present meets the hypotheses; junk in unused slots of PUSH_I64 / JMP;
   a re-ordered but first-use-equal insertion sequence *)
Example C19_nonvacuous :
  let m := {| m_flags := 1; m_entry := 0; m_strings := [[109; 97; 105; 110]; []]%N; m_code := [1; 42; 0; 0; 0; 0; 0; 0; 0; 90]%N;
              m_fns := [ {| f_name := 0; f_arity := 0; f_off := 0; f_len := 10; f_locals := 1; f_upvals := 0 |} ];
              m_dbg := [ {| g_off := 0; g_line := 3 |} ];
              m_imps := [ {| i_mod := 1; i_fn := 0; i_pcount := 2; i_ret := 1; i_ptypes := Some [1; 3]%N |};
                          {| i_mod := 1; i_fn := 0; i_pcount := 0; i_ret := 0; i_ptypes := None |} ] |} in
  (match serialize_into crc32 ser_consts (repeat 238%N (total_size ser_consts m)) m, serialize crc32 ser_consts m with
   | Some a, Some b => list_N_eqb a b && Nat.eqb (length a) 164 | _, _ => false end) &&
  (match encode_raw table {| r_op := 1; r_count := 9; r_slots := [5; 7; 7; 7]%N; r_types := [9]%N; r_bytelen := 77 |},
         encode_raw table {| r_op := 1; r_count := 0; r_slots := [5; 0; 0; 0]%N; r_types := []; r_bytelen := 0 |} with
   | Some a, Some b => list_N_eqb a b | _, _ => false end) &&
  (let '(p1, i1) := add_all [] [[1]; [2]; [1]; [3]]%N in let '(p2, i2) := add_all [] [[1]; [2]; [3]; [2]; [2]]%N in
   Nat.eqb (length p1) 3 && Nat.eqb (length p2) 3 && Nat.eqb (nth 3 i1 9%nat) 2 && Nat.eqb (nth 2 i2 9%nat) 2) = true.
Proof. vm_compute. reflexivity. Qed.
