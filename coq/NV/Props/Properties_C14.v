(* C14 -- the VM heap never frees or loses count of an object that is still referenced.
   Only property theorems here, each closed by [exact <lemma>] (or vm_compute on the generated table of real churn
   streams) and followed by Print Assumptions.

   Model: NV.Heap.Heap (cells, retain, release worklist, interning), NV.Heap.Ops (opcodes of vm.c as micro-op
   programs, modelled as what vm.c does - leaks included), NV.Heap.Refcount (roots, in-degree, invariants).
   Tie: probes/heap_trace.c logs the real VM's decoded instruction stream and heap after every instruction; the
   extracted model replays the stream and must agree on live set / tags / ref_counts / in-degrees at every step. *)
From Coq Require Import List Arith Bool ZArith.
From NV Require Import Heap.Heap Heap.Ops Heap.Refcount Heap.HeapProofs Heap.OpsProofs Heap.RunProofs Heap.Churn Heap.Witness.
From NV Require Import Heap.Width Heap.WidthProofs.
From NV Require Import gen.ChurnC14 gen.HeapParams.
Import ListNotations.

(* ---- the invariant: interning table sound, and for every id  in-degree(roots, live containers) <= ref_count
   (ref_count of a freed / unallocated id is 0, so the inequality also says every reference points at a live object) *)
Theorem C14_init_inv : Inv init_state /\ ExactInv init_state.
Proof. exact (conj init_inv init_exact). Qed.
Print Assumptions C14_init_inv.

(* what Inv says, in the property's words: all references (stack incl. locals, globals, frame closures, slots of live
   containers) point at live objects; ref_count >= number of such references; a freed object is not referenced *)
Theorem C14_inv_meaning : forall m, Inv m -> all_refs_live m /\ counts_cover m /\ freed_unreferenced m.
Proof. exact Inv_meaning. Qed.
Print Assumptions C14_inv_meaning.

(* preserved by every modelled opcode, from any state satisfying it (arbitrary bytecode, not only compiler output) *)
Theorem C14_step_inv : forall i m m', Inv m -> step i m = Some (Ok m') -> Inv m'.
Proof. exact step_inv. Qed.
Print Assumptions C14_step_inv.

(* ... and by runs: fold of step over any instruction stream *)
Theorem C14_run_inv : forall is m', run is init_state = Some (Ok m') -> Inv m'.
Proof. intros is m' H. exact (proj1 (run_inv is init_state m' init_inv H)). Qed.
Print Assumptions C14_run_inv.

(* no opcode touches a freed object (vm_retain / vm_release / slot access through a dangling pointer) and the release
   worklist never runs out of fuel *)
Theorem C14_no_use_after_free : forall i m, Inv m -> step i m <> Some UAF /\ step i m <> Some OutOfFuel.
Proof. exact step_no_uaf. Qed.
Print Assumptions C14_no_use_after_free.
Theorem C14_run_no_use_after_free : forall is, run is init_state <> Some UAF /\ run is init_state <> Some OutOfFuel.
Proof. intros is. exact (run_no_uaf is init_state init_inv). Qed.
Print Assumptions C14_run_no_use_after_free.

(* released exactly once: ids are never reused and a freed cell stays freed for the rest of the run (a second
   release of it would be the UAF outcome excluded above) *)
Theorem C14_no_double_free : forall is m m', Inv m -> run is m = Some (Ok m') ->
  length (cells (hp m)) <= length (cells (hp m')) /\ forall x, get (hp m) x = Some Freed -> get (hp m') x = Some Freed.
Proof. intros is m m' I H. exact (proj2 (run_inv is m m' I H)). Qed.
Print Assumptions C14_no_double_free.

(* vm_release as a depth-first worklist with the pending-multiset invariant (DESIGN Appendix A.2): sum_rc is a measure *)
Theorem C14_release_ok : forall fuel h R wl, heap_wf h -> PInv h R wl -> sum_rc h < fuel ->
  exists h', release_wl fuel h wl = Ok h' /\ heap_wf h' /\ PInv h' R [].
Proof. exact release_ok. Qed.
Print Assumptions C14_release_ok.
Theorem C14_release_exact : forall fuel h R wl, heap_wf h -> EInv h R wl -> sum_rc h < fuel ->
  exists h', release_wl fuel h wl = Ok h' /\ heap_wf h' /\ EInv h' R [].
Proof. exact release_exact. Qed.
Print Assumptions C14_release_exact.

(* ---- exactness (ref_count = in-degree, i.e. nothing leaks).  Preserved by every opcode execution that does not
   forget a reference; [step_leaks] is computed by the model and compared with the real VM on every step *)
Theorem C14_step_exact : forall i m m', ExactInv m -> step i m = Some (Ok m') -> step_leaks i m = false -> ExactInv m'.
Proof. exact step_exact. Qed.
Print Assumptions C14_step_exact.
Theorem C14_run_exact : forall is m', run is init_state = Some (Ok m') -> run_leaks is init_state = false -> ExactInv m'.
Proof. intros is m' H L. exact (run_exact is init_state m' init_exact H L). Qed.
Print Assumptions C14_run_exact.

(* no leak: after any run on which no opcode forgot a reference, every live object is referenced from the stack, a
   global, a frame closure or a slot of a live container - whatever is referenced from nowhere has been freed.
   (Reference cycles, which only hand-made bytecode can build, are referenced and therefore stay.) *)
Theorem C14_no_leak : forall is m', run is init_state = Some (Ok m') -> run_leaks is init_state = false ->
  forall x, is_live (hp m') x = true -> In x (roots m' ++ heap_refs (hp m')).
Proof. intros is m' H L. exact (no_leak m' (run_exact is init_state m' init_exact H L)). Qed.
Print Assumptions C14_no_leak.

(* the opcodes whose handlers are exact whatever the operands: ENTER NOP PUSH_* DUP POP SWAP ROT3 LOAD/STORE_LOCAL
   LOAD/STORE_GLOBAL LOAD/STORE_UPVALUE, comparisons/logic/JMP_T/F/STR_LEN/ARR_LEN/casts/PRINT/ASSERT (IPopRelease),
   STR_CONCAT, ARR_NEW/PUSH/POP/LITERAL, STRUCT_NEW/GET/SET/LITERAL, UNION_CONSTRUCT/FIELD, TUPLE_NEW/GET, CLOSURE_NEW, CALL *)
Theorem C14_exact_core : forall i m m', ExactInv m -> static_exact i = true -> step i m = Some (Ok m') -> ExactInv m'.
Proof. exact exact_core. Qed.
Print Assumptions C14_exact_core.

(* ---- trap paths.  A trapping opcode (trap_error in vm.c) is a TERMINAL step of the model: its micro-ops are carried out
   and [run] executes nothing after it.  Being a step, it preserves the invariant and touches no freed object
   (C14_step_inv, C14_no_use_after_free, C14_run_inv cover it); spelled out: *)
Theorem C14_trap_step_safe : forall i m, Inv m -> traps i m = true ->
  step i m <> Some UAF /\ step i m <> Some OutOfFuel /\ forall m', step i m = Some (Ok m') -> Inv m' /\ run [i; IRet; IRet] m = Some (Ok m').
Proof.
  intros i m I T. destruct (step_no_uaf i m I) as [A B]. split; auto. split; auto.
  intros m' S. split. exact (step_inv i m m' I S). simpl. rewrite S, T. reflexivity.
Qed.
Print Assumptions C14_trap_step_safe.

(* the out-of-range / empty / not-an-array paths of ARR_POP, ARR_GET, ARR_SET, ARR_REMOVE (vm.c after "out-of-range array
   operations ... yield void and keep running" was fixed): the popped array - and for ARR_SET the popped value - are released,
   nothing is forgotten: the terminal state is exact (the index operand is a scalar; these handlers never release it) *)
Theorem C14_array_trap_exact : forall i m m', ExactInv m -> array_trap_op i = true -> traps i m = true ->
  index_scalar i m = true -> step i m = Some (Ok m') -> ExactInv m'.
Proof. exact array_trap_exact. Qed.
Print Assumptions C14_array_trap_exact.

(* the range test is the 64-bit one, made before the index is narrowed: in range iff 0 <= idx < length *)
Theorem C14_index_range_is_64bit : forall idx len j, idx_in idx len = Some j <-> (0 <= idx < Z.of_nat len)%Z /\ j = Z.to_nat idx.
Proof. exact idx_in_spec. Qed.
Print Assumptions C14_index_range_is_64bit.

(* ---- ARR_SLICE.  vm_array_slice copies and retains EVERY element of the range, independent of VmArray.elem_type (the code
   generator tags array<array<int>>, array<struct>, map/filter/range results and the string broadcast as TAG_INT).  The model
   has no element tag: the new array holds one counted reference per reference element of the copied range. *)
Theorem C14_slice_retains_every_element : forall m s e c r rc o,
  Inv m -> regs m = VRef c :: r -> get (hp m) c = Some (Live rc o) ->
  let sub := firstn (e - s) (skipn s (ovals o)) in
  exists m' i, run_uop (USlice s e) m = Ok m' /\ regs m' = VRef i :: VRef c :: r /\
    get (hp m') i = Some (Live 1 (Obj KArr sub)) /\
    forall x, x <> i -> rcof (hp m') x = rcof (hp m) x + cnt x (refs sub).
Proof. exact slice_retains_every_element. Qed.
Print Assumptions C14_slice_retains_every_element.

(* ---- refuted: opcodes of vm.c that forget a reference (ref_count stays above the in-degree for ever => the object
   and everything it owns is never freed).  Each: a reachable exact state, one opcode, a non-exact (but safe) state. *)
(* SUB/MUL/DIV/MOD type error path; not a finding: the VM stops with the error right after *)
Theorem C14_exact_arith_type_error_refuted : leaks_at [IEnter 1; IPushStr 0; IPushNon] IArith2.
Proof. exact arith_type_error_leaks. Qed.
Print Assumptions C14_exact_arith_type_error_refuted.

(* ---- churn.  PARTIAL: checked on the generated table of real instruction streams (every family x 3 and 12
   iterations, regenerated from the current compiler + VM on every run), not proved for all iteration counts.
   Exact families: model run ends with exactly the live-object count of the real VM, final state exact, nothing
   forgotten, count independent of the iteration count.  (After the C14 fixes no family leaks any more.)
   Missing for the full statement: an induction over the iteration count (needs a renaming argument for ids). *)
Theorem C14_churn_bounded_partial : churn_table_ok churn_table = true.
Proof. vm_compute. reflexivity. Qed.
Print Assumptions C14_churn_bounded_partial.

(* hypotheses are satisfiable / the model really runs: a leak-free program keeps ref_count = in-degree ... *)
Definition ex_prog : list instr :=
  [IEnter 2; IPushStr 0; IStoreLocal 0; ILoadLocal 0; IPushStr 0; IArrLiteral 2; IStoreLocal 1;
   ILoadLocal 1; IPushNon; IArrGet 1%Z; IPop; IPushNon; IRet].
Example C14_ex_exact_run :
  exists m, run ex_prog init_state = Some (Ok m) /\ ExactInv m /\ live_count (hp m) = 0.
Proof.
  destruct (run ex_prog init_state) as [[m| | |]|] eqn:R; try (vm_compute in R; discriminate).
  exists m. split. reflexivity. split.
  - apply (run_exact ex_prog init_state m init_exact R). vm_compute. reflexivity.
  - vm_compute in R. inversion R. reflexivity.
Qed.
(* a run that traps: array_set with index 2^32 (in range after narrowing, out of range as a 64-bit value) on a one-element
   array of strings with a string value: the array, its element and the value are all released, the state is exact, and
   the instructions after the trap are not executed *)
Definition ex_trap : list instr :=
  [IEnter 0; IPushStr 0; IArrLiteral 1; IPushNon; IPushStr 1; IArrSet 4294967296%Z; IPushStr 2; IPushStr 3].
Example C14_ex_trap_run :
  exists m, run ex_trap init_state = Some (Ok m) /\ ExactInv m /\ live_count (hp m) = 0 /\ stack m = [].
Proof.
  destruct (run ex_trap init_state) as [[m| | |]|] eqn:R; try (vm_compute in R; discriminate).
  exists m. split. reflexivity. split.
  - apply (run_exact ex_trap init_state m init_exact R). vm_compute. reflexivity.
  - vm_compute in R. inversion R. split; reflexivity.
Qed.
(* slice of an array of arrays (a TAG_INT array on the real VM): after the slice the inner array (id 0) is counted three
   times - local 0, the source array, the slice; when the slice dies (POP) it is still live and exactly counted, and the
   source can be read again *)
Definition ex_slice : list instr :=
  [IEnter 2; IArrNew; IStoreLocal 0; ILoadLocal 0; IArrLiteral 1; IStoreLocal 1;
   ILoadLocal 1; IPushNon; IPushNon; IArrSlice 0%Z (Some 1%Z)].
Example C14_ex_slice_counts :
  exists m m2, run ex_slice init_state = Some (Ok m) /\ ExactInv m /\ rcof (hp m) 0 = 3 /\ indeg m 0 = 3 /\
               run [IPop; ILoadLocal 1; IPushNon; IArrGet 0%Z] m = Some (Ok m2) /\ ExactInv m2 /\
               rcof (hp m2) 0 = 3 /\ is_live (hp m2) 2 = false /\ peek m2 0 = VRef 0.
Proof.
  destruct (run ex_slice init_state) as [[m| | |]|] eqn:R; try (vm_compute in R; discriminate).
  assert (X: ExactInv m) by (apply (run_exact ex_slice init_state m init_exact R); vm_compute; reflexivity).
  destruct (run [IPop; ILoadLocal 1; IPushNon; IArrGet 0%Z] m) as [[m2| | |]|] eqn:R2;
    try (vm_compute in R; inversion R; subst; vm_compute in R2; discriminate).
  exists m, m2. split. reflexivity. split. exact X.
  assert (X2: ExactInv m2).
  { apply (run_exact _ m m2 X R2). vm_compute in R. inversion R; subst. vm_compute. reflexivity. }
  vm_compute in R. inversion R; subst. vm_compute in R2. inversion R2; subst.
  split. reflexivity. split. reflexivity. split. reflexivity. split. exact X2.
  split. reflexivity. split; reflexivity.
Qed.
(* ... and releasing an object that is already freed is detected by the model (so no_use_after_free is not vacuous) *)
Example C14_ex_uaf_detected :
  release_wl 5 (Heap [Freed] []) [0] = UAF /\ retain (Heap [Freed] []) 0 = UAF.
Proof. split; reflexivity. Qed.

(* ---- the count FIELD.  The model counts with unbounded numbers; vm.c stores the count in VmHeapHeader.ref_count, whose width
   (rc_width), like the size of a reference cell and the VM's limits, is read from the current headers by the C compiler
   (NV.gen.HeapParams).  These theorems come LAST in the file: a header change that breaks them leaves the others standing. *)

(* in an exact state a count is at most the number of memory cells that can hold a reference:
   stack slots + globals + handler locals + slots of live containers + call frames *)
Theorem C14_count_bounded_by_cells : forall m x, ExactInv m -> rcof (hp m) x <= ref_cells m.
Proof. exact rc_le_cells. Qed.
Print Assumptions C14_count_bounded_by_cells.

(* the VM's own limits do not bound that number (they bound one stack, the globals and the frames; the number of containers
   is limited by memory only), so the obligation is stated under the memory assumption of NV.Heap.Width
   (assumed_vm_memory_bytes = 2^35): at most max_ref_cells = 2^35 / sizeof(NanoValue) + VM_MAX_FRAMES references can exist,
   and that must fit the field.  Decided on the generated numbers: holds for the 32-bit field, FAILS for a narrower one. *)
Theorem C14_count_fits_width : (max_ref_cells < 2 ^ rc_width)%N.
Proof. vm_compute. reflexivity. Qed.
Print Assumptions C14_count_fits_width.

(* hence the field never wraps and holds exactly the model's count in every exact state that fits the assumed memory *)
Theorem C14_count_never_wraps : forall m x, ExactInv m -> fits_memory m ->
  (N.of_nat (rcof (hp m) x) < 2 ^ rc_width)%N /\ field_value (rcof (hp m) x) = N.of_nat (rcof (hp m) x).
Proof. exact (count_fits_field C14_count_fits_width). Qed.
Print Assumptions C14_count_never_wraps.

(* a 16-bit field does not meet the obligation (65536 references need 1 MiB of cells), nor does any width up to 31 *)
Theorem C14_count_needs_32_bits : ~ (max_ref_cells < 2 ^ 16)%N /\ ~ (max_ref_cells < 2 ^ 31)%N.
Proof. split; vm_compute; discriminate. Qed.
Print Assumptions C14_count_needs_32_bits.

(* many owners: 300 DUPs of one interned string give it 301 counted owners (an 8-bit field would have wrapped at 256);
   the model's counts are unbounded, the bound above is about memory, not about the model *)
Definition ex_many : list instr := IEnter 0 :: IPushStr 0 :: repeat IDup 300.
Example C14_ex_many_owners :
  exists m, run ex_many init_state = Some (Ok m) /\ ExactInv m /\ rcof (hp m) 0 = 301 /\ ref_cells m = 302.
Proof.
  destruct (run ex_many init_state) as [[m| | |]|] eqn:R; try (vm_compute in R; discriminate).
  exists m. split. reflexivity. split.
  - apply (run_exact ex_many init_state m init_exact R). vm_compute. reflexivity.
  - vm_compute in R. inversion R. split; vm_compute; reflexivity.
Qed.
