(* asm_assemble (disasm_module m) = m on strings, function table and code: the module-level theorem and the witnesses that
   show which of its hypotheses the real tools need (proofs for NV.Isa.Asm). *)
From Coq Require Import NArith ZArith List Lia Bool.
From Coq Require String.
Import String.StringSyntax.
From NV Require Import Base.Bytes Isa.Codec Isa.CodecProofs Isa.Asm Isa.AsmDec Isa.AsmLex Isa.AsmLine Isa.AsmFn Isa.AsmMod gen.AsmConsts.
Import ListNotations.
Local Open Scope N_scope.

(* ---------------------------------------------------------------- pure list facts *)
Lemma chain_positions TL : forall D p e, chain TL p D e -> Forall (fun q => p <= q < e) (map fst D) /\ p <= e /\ NoDup (map fst D ++ [e]).
Proof.
  induction D as [|[p0 i] D IH]; intros p e H; inversion H as [|? ? ? ? Hch]; subst.
  - cbn. split; [constructor|]. split; [lia|]. constructor; [intros []|constructor].
  - assert (Hpos : 0 < lenN (ienc TL i)) by (unfold ienc; rewrite lenN_cons; lia).
    destruct (IH _ _ Hch) as [F [Hle Hnd]]. cbn [map fst].
    split; [|split; [lia|]].
    + constructor; [lia|]. eapply Forall_impl; [|exact F]. cbn beta. intros q Hq. lia.
    + cbn [app]. constructor; [|exact Hnd]. intros Hin. apply in_app_or in Hin. destruct Hin as [Hin|[<-|[]]]; [|lia].
      rewrite Forall_forall in F. specialize (F _ Hin). lia.
Qed.

Lemma mem_N_In_pure t : forall L, mem_N t L = true -> In t L.
Proof.
  induction L as [|y L IH]; intros H; [discriminate|]. cbn [mem_N] in H.
  destruct (N.eqb_spec t y) as [->|]; [left; reflexivity|right; apply IH, H].
Qed.
Lemma filter_count_le (L ps : list N) : NoDup ps -> lenN (filter (fun q => mem_N q L) ps) <= lenN L.
Proof.
  intros Hnd.
  assert (H : (length (filter (fun q => mem_N q L) ps) <= length L)%nat).
  { apply NoDup_incl_length; [apply NoDup_filter, Hnd|].
    intros q Hq. apply filter_In in Hq. apply mem_N_In_pure. exact (proj2 Hq). }
  unfold lenN. lia.
Qed.

Section Proofs.
Variable TL : list (N * (String.string * list okind)).
Variable print_f64 : N -> text.
Variable parse_f64 : text -> option (N * text).
Variable good : N -> bool.
Hypothesis Hnames : names_ok TL = true.
Hypothesis Hcmt : comment_ops_ok TL = true.
Hypothesis Horacle : forall v, good v = true -> f64_text_ok print_f64 parse_f64 v.
Set Default Proof Using "All".
Local Notation "'LL' f" := (f TL print_f64 parse_f64 good Hnames Hcmt Horacle) (at level 10, f at level 9).

Let T : table_t := table_of TL.
Notation run := (run TL parse_f64).
Notation process_line := (process_line TL parse_f64).
Notation fn_labels := (fn_labels TL).
Notation decode_all := (decode_all TL).
Notation printed_lines := (printed_lines TL print_f64).
Notation kinds_of := (kinds_of TL).

(* ---------------------------------------------------------------- facts about collect *)
Lemma add_targets_len ks : forall vs pos cs labels, lenN labels <= max_disasm_labels ->
  lenN (add_targets ks vs pos cs labels) <= max_disasm_labels.
Proof.
  induction ks as [|k ks IH]; intros [|v vs] pos cs labels H; cbn [add_targets]; try exact H.
  apply IH. destruct (okind_eqb k KI32); [|exact H].
  destruct ((u32 (pos + v) <=? cs) && negb (mem_N (u32 (pos + v)) labels)); cbn [andb]; [|exact H].
  destruct (N.ltb_spec (lenN labels) max_disasm_labels); [|exact H]. rewrite lenN_app. unfold lenN at 2. cbn [length]. lia.
Qed.
Lemma collect_len fuel : forall cs bs pos labels, lenN labels <= max_disasm_labels ->
  lenN (collect TL fuel cs bs pos labels) <= max_disasm_labels.
Proof.
  induction fuel as [|f IH]; intros cs bs pos labels H; cbn [collect]; [exact H|].
  destruct (decode (table_of TL) bs) as [[i n]|]; [|exact H]. apply IH, add_targets_len, H.
Qed.
Lemma filter_lenN {A} (f : A -> bool) l : lenN (filter f l) <= lenN l.
Proof. induction l as [|x l IH]; [cbn; lia|]. cbn [filter]. destruct (f x); rewrite ?lenN_cons; lia. Qed.
Lemma fn_labels_len c : lenN (fn_labels c) <= max_disasm_labels.
Proof.
  unfold Asm.fn_labels. etransitivity; [apply filter_lenN|]. apply collect_len. unfold max_disasm_labels. cbn. lia.
Qed.

(* on code that decodes, the boundary scan visits exactly the instruction starts: every label is a start or the end *)
Lemma walk_decode_all fuel : forall bs pos D, decode_all fuel bs pos = Some D -> walk TL fuel bs pos = map fst D.
Proof.
  induction fuel as [|f IH]; intros bs pos D H.
  - destruct bs; [inversion H; reflexivity|discriminate].
  - destruct bs as [|b r]; [inversion H; reflexivity|]. cbn [Asm.decode_all] in H. cbn [walk].
    destruct (decode (table_of TL) (b :: r)) as [[i n]|]; [|discriminate].
    destruct (Asm.decode_all TL f (skipn n (b :: r)) (pos + N.of_nat n)) as [D'|] eqn:E; [|discriminate].
    inversion H; subst. cbn [map fst]. f_equal. apply IH, E.
Qed.
Lemma fn_labels_bnd c D : decode_all (length c) c 0 = Some D -> forall t, In t (fn_labels c) -> In t (map fst D ++ [lenN c]).
Proof.
  intros Hd t Ht. unfold Asm.fn_labels in Ht. apply filter_In in Ht. destruct Ht as [_ Hb]. unfold on_boundary in Hb.
  rewrite (walk_decode_all _ _ _ _ Hd) in Hb. apply orb_true_iff in Hb. apply in_or_app. destruct Hb as [Hb|Hb].
  - apply N.eqb_eq in Hb. right. left. symmetry. exact Hb.
  - left. apply mem_N_In_pure, Hb.
Qed.

(* ---------------------------------------------------------------- from the boolean conjuncts to the hypotheses of run_body *)
Lemma args_ok_of L p ks : forall vs, wf_args ks vs -> f64s_ok good ks vs = true -> args_ok good L p ks vs.
Proof.
  induction ks as [|k ks IH]; intros [|v vs] Hw Hf; cbn [wf_args f64s_ok AsmLine.args_ok] in *; try contradiction; [exact I|].
  destruct Hw as [Hv Hw]. apply andb_true_iff in Hf. destruct Hf as [Hf1 Hf].
  split; [|apply IH; assumption]. split; [exact Hv|]. intros ->. exact Hf1.
Qed.

Lemma instr_ok_of c D : decode_all (length c) c 0 = Some D -> bytes_ok c -> code_f64 TL good c = true ->
  Forall (instr_ok TL good (fn_labels c)) D.
Proof.
  intros Hd Hok Hf. destruct ((LL decode_all_spec) _ _ _ _ Hok Hd) as [_ [_ Hwf]].
  unfold code_f64, on_code in *. rewrite Hd in *. rewrite forallb_forall in Hf.
  rewrite Forall_forall in *. intros [p i] Hin. destruct (Hwf _ Hin) as [ks [HT Hw]]. cbn [fst snd] in *.
  exists ks. split; [exact HT|]. cbn [fst snd].
  specialize (Hf _ Hin). cbn [fst snd] in Hf. rewrite ((LL kinds_of_T) _ _ HT) in Hf.
  apply args_ok_of; assumption.
Qed.

Lemma lab1_len L k q : lenN (lab1 L k q) = if mem_N q L then 1 else 0.
Proof.
  unfold lab1. destruct (index_of q L 0) eqn:E; [rewrite ((LL index_of_mem) _ _ _ _ E)|rewrite ((LL index_of_none_mem) _ _ _ E)]; reflexivity.
Qed.
Lemma labs_len L k ps : lenN (labs L k ps) = lenN (filter (fun q => mem_N q L) ps).
Proof.
  induction ps as [|q ps IH]; [reflexivity|]. unfold labs in *. cbn [flat_map filter]. rewrite lenN_app, lab1_len, IH.
  destruct (mem_N q L); [rewrite lenN_cons|]; lia.
Qed.
Lemma labs_fn L k ps l : In l (labs L k ps) -> l_fn l = k.
Proof.
  unfold labs. intros H. apply in_flat_map in H. destruct H as [q [_ H]]. unfold lab1 in H.
  destruct (index_of q L 0); [destruct H as [<-|[]]; reflexivity|destruct H].
Qed.

Lemma mk_patches_fn L k start ks : forall vs off p, In p (mk_patches L k start off ks vs) -> p_fn p = k.
Proof.
  induction ks as [|kk ks IH]; intros [|v vs] off p H; cbn [mk_patches] in H; try destruct H.
  apply in_app_or in H. destruct H as [H|H]; [|eapply IH, H].
  unfold patch1 in H. destruct (labelled L start kk v); [destruct H as [<-|[]]; reflexivity|destruct H].
Qed.
Lemma all_patches_fn L k D p : In p (all_patches TL L k D) -> p_fn p = k.
Proof. unfold all_patches. intros H. apply in_flat_map in H. destruct H as [pi [_ H]]. eapply mk_patches_fn, H. Qed.
Lemma filter_none_fn (ps : list patch) k : (forall p, In p ps -> p_fn p = k) -> filter (fun p => negb (p_fn p =? k)) ps = [].
Proof.
  induction ps as [|p ps IH]; intros H; [reflexivity|]. cbn [filter]. rewrite (H p (or_introl eq_refl)), N.eqb_refl. cbn [negb].
  apply IH. intros q Hq. apply H. right. exact Hq.
Qed.

Lemma run_body_end m c D st1 k :
  decode_all (length c) c 0 = Some D -> bytes_ok c ->
  code_f64 TL good c = true -> code_patches TL c = true ->
  lenN c < 4294967296 ->
  a_in_fn st1 = true -> a_cur st1 = k -> a_size st1 = 0 -> a_rcode st1 = [] -> a_patches st1 = [] -> a_labels st1 = [] ->
  exists st_e, run st1 (printed_lines m (fn_labels c) D (lenN c) ++ [B ".end"]) = inl st_e /\
    a_mod st_e = {| m_flags := m_flags (a_mod st1); m_entry := m_entry (a_mod st1); m_strings := m_strings (a_mod st1);
                    m_funcs := set_fn_code (m_funcs (a_mod st1)) k (lenN (m_code (a_mod st1))) (lenN c);
                    m_code := m_code (a_mod st1) ++ c |} /\
    a_in_fn st_e = false /\ a_patches st_e = [] /\ a_labels st_e = [].
Proof.
  intros Hd Hbok Hf Hp Hlen Hin Hcur Hsz Hrc Hpa Hla.
  set (L := fn_labels c) in *. set (e := lenN c) in *.
  destruct ((LL decode_all_spec) _ _ _ _ Hbok Hd) as [Ecode [Hch _]]. rewrite N.add_0_l in Hch. fold e in Hch.
  pose proof (instr_ok_of c D Hd Hbok Hf) as Hok. fold L in Hok.
  destruct (chain_positions TL D 0 e Hch) as [_ [_ Hnd]].
  pose proof (filter_count_le L _ Hnd) as Hcnt.
  pose proof (fn_labels_len c) as HL. fold L in HL.
  assert (Hpat : lenN (a_patches st1) + total_i32 TL D <= max_patches).
  { rewrite Hpa. unfold code_patches, on_code in Hp. rewrite Hd in Hp. apply N.leb_le in Hp. unfold total_i32. rewrite lenN_nil. lia. }
  assert (Hinv : lab_inv L k st1 0).
  { intros l Hl Hfn. rewrite Hla in Hl. destruct Hl. }
  rewrite (LL run_app).
  rewrite ((LL run_body) m L k HL D st1 0 e Hch Hin Hcur Hsz Hok Hinv).
  2:{ rewrite Hla, lenN_nil. unfold max_disasm_labels, max_labels in *. lia. }
  2:{ exact Hpat. }
  destruct ((LL sim_fields) L D st1 0 e Hch Hsz Hok) as [S1 [S2 [S3 [S4 [S5 [S6 S7]]]]]].
  set (sb := sim TL L st1 D) in *.
  destruct ((LL maybe_label_fields) L sb e) as [F1 [F2 [F3 [F4 [F5 [F6 F7]]]]]].
  set (st_b := maybe_label L sb e) in *.
  cbn [AsmFn.run]. rewrite (LL process_end) by (rewrite F1, S1; exact Hin).
  assert (Elab : a_labels st_b = labs L k (map fst D ++ [e])).
  { unfold st_b. rewrite ((LL maybe_label_labels_eq) L sb e S4), S7, S2, Hcur, Hla. unfold labs. rewrite flat_map_app. cbn [flat_map app].
    rewrite app_nil_r. reflexivity. }
  assert (HLbnd : forall t, In t L -> In t (map fst D ++ [e])) by (apply fn_labels_bnd; exact Hd).
  assert (Hfind : forall t idx, index_of t L 0 = Some idx -> In t (map fst D ++ [e]) ->
            exists l, find_label (a_labels st_b) (label_name idx) k = Some l /\ l_off l = t).
  { intros t idx Ei Hin'. rewrite Elab. apply (LL find_label_labs); assumption. }
  rewrite F4, S5, Hpa, F2, S2, Hcur, F6, S6, Hrc. cbn [app rev].
  pose proof ((LL resolve_all) L k (a_labels st_b) (map fst D ++ [e]) HLbnd Hfind D 0 e [] Hch Hlen Hok eq_refl) as Hres.
  cbn [app] in Hres. rewrite Hres. unfold code_of_D in *. rewrite <- Ecode.
  eexists. split; [reflexivity|]. cbn [a_mod a_in_fn a_patches a_labels].
  rewrite F5, S3, F3, S4. split; [reflexivity|]. split; [reflexivity|]. split; [|reflexivity].
  apply filter_none_fn. intros p Hp'. apply (all_patches_fn L k D p Hp').
Qed.

(* ---------------------------------------------------------------- one function block *)
Definition fn_name_of (m : module) (f : fent) : text :=
  match nthN (m_strings m) (fn_name f) with Some s => cstr s | None => B "???" end.
Definition body_lines (m : module) (c : list byte) : list text :=
  match decode_all (length c) c 0 with Some D => printed_lines m (fn_labels c) D (lenN c) | None => [] end.
Definition fn_block (m : module) (f : fent) : list text :=
  function_line (fn_name_of m f) f :: body_lines m (code_of m f) ++ [B ".end"; []].

Definition mkmod (fl en : N) (ss : list (list byte)) (fs : list fent) (c : list byte) : module :=
  {| m_flags := fl; m_entry := en; m_strings := ss; m_funcs := fs; m_code := c |}.

Lemma all_ident_no0 l : all_ident l = true -> ~ In 0 l.
Proof.
  intros H Hin. pose proof (all_ident_plain l H) as P. rewrite Forall_forall in P. specialize (P _ Hin). discriminate P.
Qed.

Lemma set_fn_code_last Fdone f0 off len :
  set_fn_code (Fdone ++ [f0]) (lenN Fdone) off len =
  Fdone ++ [{| fn_name := fn_name f0; fn_arity := fn_arity f0; fn_off := off; fn_len := len; fn_locals := fn_locals f0; fn_upv := fn_upv f0 |}].
Proof.
  unfold set_fn_code, lenN. rewrite Nat2N.id.
  rewrite nth_error_app2 by lia. rewrite Nat.sub_diag. cbn [nth_error].
  rewrite firstn_app, firstn_all, Nat.sub_diag. cbn [firstn]. rewrite app_nil_r.
  rewrite skipn_all2 by (rewrite app_length; cbn [length]; lia). reflexivity.
Qed.

Lemma run_fn m st f fl en Fdone Cdone name :
  a_mod st = mkmod fl en (m_strings m) Fdone Cdone -> a_in_fn st = false -> a_patches st = [] -> a_labels st = [] ->
  nthN (m_strings m) (fn_name f) = Some name -> fname_okb name = true -> distinct_strs (m_strings m) = true ->
  fn_arity f < 65536 -> fn_locals f < 65536 -> fn_upv f < 65536 ->
  wf_codeb TL good (code_of m f) = true -> bytes_ok (code_of m f) ->
  lenN (code_of m f) = fn_len f -> fn_off f = lenN Cdone -> lenN (code_of m f) < 4294967296 ->
  exists st', run st (fn_block m f) = inl st' /\
    a_mod st' = mkmod fl en (m_strings m) (Fdone ++ [f]) (Cdone ++ code_of m f) /\
    a_in_fn st' = false /\ a_patches st' = [] /\ a_labels st' = [].
Proof.
  intros Hmod Hin Hpa HLS Hname Hfn Hdist Ha Hl Hu Hwf Hbok Hlen Hoff Hlt.
  unfold fname_okb in Hfn. rewrite !andb_true_iff in Hfn. destruct Hfn as [[Hid Hne] Hnl].
  apply negb_true_iff, Nat.eqb_neq in Hne. apply N.ltb_lt in Hnl.
  assert (Hne' : name <> []) by (intros ->; apply Hne; reflexivity).
  unfold wf_codeb in Hwf. rewrite !andb_true_iff in Hwf. destruct Hwf as [[Hdec Hp] Hf].
  unfold code_decodes in Hdec. destruct (decode_all (length (code_of m f)) (code_of m f) 0) as [D|] eqn:Hd; [|discriminate].
  unfold fn_block, fn_name_of, body_lines. rewrite Hname, Hd, (cstr_id name (all_ident_no0 _ Hid)).
  cbn [AsmFn.run].
  assert (Hadd : add_string (a_mod st) name = (a_mod st, fn_name f)).
  { unfold add_string. rewrite Hmod. cbn [m_strings mkmod]. rewrite (find_string_nth _ _ _ 0 Hdist Hname). rewrite N.add_0_l. reflexivity. }
  rewrite ((LL process_function) st name f (fn_name f) Hin Hid Hne' Hnl Ha Hl Hu Hadd).
  set (st1 := {| a_mod := _; a_labels := a_labels st |}).
  change (printed_lines m (fn_labels (code_of m f)) D (lenN (code_of m f)) ++ [B ".end"; []])
    with (printed_lines m (fn_labels (code_of m f)) D (lenN (code_of m f)) ++ [B ".end"] ++ [[]]).
  rewrite app_assoc, (LL run_app).
  destruct (run_body_end m (code_of m f) D st1 (lenN Fdone) Hd Hbok Hf Hp Hlt) as [st_e [Hrun [Em [Ei [Ep El]]]]];
    try reflexivity; try assumption.
  { unfold st1. cbn [a_cur]. rewrite Hmod. reflexivity. }
  rewrite Hrun. cbn [AsmFn.run]. rewrite (LL process_blank).
  exists st_e. split; [reflexivity|]. split; [|split; [exact Ei|split; [exact Ep|exact El]]].
  rewrite Em. unfold st1. cbn [a_mod m_flags m_entry m_strings m_funcs m_code]. rewrite Hmod. cbn [mkmod m_flags m_entry m_strings m_funcs m_code].
  unfold mkmod. rewrite set_fn_code_last. cbn [fn_name fn_arity fn_locals fn_upv]. rewrite Hlen, <- Hoff. destruct f; reflexivity.
Qed.

(* ---------------------------------------------------------------- all function blocks *)
Lemma firstn_plus {A} (l : list A) : forall a b, firstn (a + b) l = firstn a l ++ firstn b (skipn a l).
Proof.
  induction l as [|x l IH]; intros a b; [rewrite !firstn_nil, skipn_nil, firstn_nil; reflexivity|].
  destruct a as [|a]; [reflexivity|]. cbn [Nat.add firstn skipn app]. f_equal. apply IH.
Qed.
Lemma layout_le fs : forall off total, layout_okb fs off total = true -> off <= total.
Proof.
  induction fs as [|f fs IH]; intros off total H; cbn [layout_okb] in H.
  - apply N.eqb_eq in H. lia.
  - apply andb_true_iff in H. destruct H as [_ H]. apply IH in H. lia.
Qed.
Lemma slice_spec (C : list byte) off len : off + len <= lenN C ->
  slice C off len = firstn (N.to_nat len) (skipn (N.to_nat off) C) /\ lenN (slice C off len) = len.
Proof.
  intros H. unfold slice. destruct (N.ltb_spec (lenN C) off); [lia|].
  replace (N.min len (lenN C)) with len by lia. split; [reflexivity|].
  unfold lenN in *. rewrite firstn_length, skipn_length. lia.
Qed.

Definition fent_good (m : module) (f : fent) : Prop :=
  (exists name, nthN (m_strings m) (fn_name f) = Some name /\ fname_okb name = true) /\
  fn_arity f < 65536 /\ fn_locals f < 65536 /\ fn_upv f < 65536 /\ wf_codeb TL good (code_of m f) = true.

Lemma run_fns m fl en : distinct_strs (m_strings m) = true -> bytes_ok (m_code m) -> lenN (m_code m) < 4294967296 ->
  forall Ftodo Fdone off st,
  a_mod st = mkmod fl en (m_strings m) Fdone (firstn (N.to_nat off) (m_code m)) -> off <= lenN (m_code m) ->
  a_in_fn st = false -> a_patches st = [] -> a_labels st = [] ->
  layout_okb Ftodo off (lenN (m_code m)) = true -> Forall (fent_good m) Ftodo ->
  exists st', run st (flat_map (fn_block m) Ftodo) = inl st' /\
              a_mod st' = mkmod fl en (m_strings m) (Fdone ++ Ftodo) (m_code m) /\ a_in_fn st' = false.
Proof.
  intros Hdist Hbok Hclen. induction Ftodo as [|f Ftodo IH]; intros Fdone off st Hmod Hoff Hin Hpa HLS Hlay Hgood.
  - cbn [layout_okb] in Hlay. apply N.eqb_eq in Hlay. subst off. exists st. split; [reflexivity|]. split; [|exact Hin].
    rewrite Hmod, app_nil_r. unfold lenN. rewrite Nat2N.id, firstn_all. reflexivity.
  - cbn [layout_okb] in Hlay. apply andb_true_iff in Hlay. destruct Hlay as [Hfo Hlay]. apply N.eqb_eq in Hfo.
    pose proof (layout_le _ _ _ Hlay) as Hle.
    inversion Hgood as [|? ? [[name [Hname Hfn]] [Ha [Hl [Hu Hwf]]]] Hgood']; subst.
    assert (Hc : code_of m f = firstn (N.to_nat (fn_len f)) (skipn (N.to_nat (fn_off f)) (m_code m)) /\ lenN (code_of m f) = fn_len f).
    { unfold code_of. apply slice_spec. lia. }
    destruct Hc as [Hc1 Hc2].
    assert (Hcd : lenN (firstn (N.to_nat (fn_off f)) (m_code m)) = fn_off f).
    { unfold lenN in *. rewrite firstn_length. lia. }
    cbn [flat_map]. rewrite (LL run_app).
    destruct (run_fn m st f fl en Fdone (firstn (N.to_nat (fn_off f)) (m_code m)) name Hmod Hin Hpa HLS Hname Hfn Hdist Ha Hl Hu Hwf)
      as [st1 [Hrun [Em [Ei [Ep El]]]]].
    + rewrite Hc1. apply bytes_ok_firstn, bytes_ok_skipn, Hbok.
    + exact Hc2.
    + symmetry. exact Hcd.
    + rewrite Hc2. lia.
    + rewrite Hrun.
      destruct (IH (Fdone ++ [f]) (fn_off f + fn_len f) st1) as [st' [Hrun' [Em' Ei']]]; try assumption.
      * rewrite Em. f_equal. rewrite Hc1, N2Nat.inj_add. symmetry. apply firstn_plus.
      * exists st'. split; [exact Hrun'|]. split; [|exact Ei']. rewrite Em', <- app_assoc. reflexivity.
Qed.

(* ---------------------------------------------------------------- the .string lines *)
Lemma distinct_NoDup l : distinct_strs l = true -> NoDup l.
Proof.
  induction l as [|x l IH]; intros H; [constructor|]. cbn [distinct_strs] in H. apply andb_true_iff in H. destruct H as [Hx H].
  constructor; [|apply IH, H]. intros Hin. apply negb_true_iff in Hx. rewrite <- not_true_iff_false in Hx. apply Hx.
  apply existsb_exists. exists x. split; [exact Hin|apply bytes_eqb_refl].
Qed.
Lemma notin_existsb s l : ~ In s l -> existsb (bytes_eqb s) l = false.
Proof.
  intros H. destruct (existsb (bytes_eqb s) l) eqn:E; [|reflexivity]. exfalso. apply existsb_exists in E.
  destruct E as [x [Hx Hb]]. apply bytes_eqb_eq in Hb. subst. exact (H Hx).
Qed.


Lemma run_strings : forall strs pre st, a_mod st = mkmod 0 0 pre [] [] -> NoDup (pre ++ strs) ->
  exists st', run st (map string_line strs) = inl st' /\ a_mod st' = mkmod 0 0 (pre ++ strs) [] [] /\
              a_in_fn st' = a_in_fn st /\ a_patches st' = a_patches st /\ a_labels st' = a_labels st.
Proof.
  induction strs as [|s strs IH]; intros pre st Hmod Hnd.
  - exists st. rewrite app_nil_r. repeat split; try reflexivity. exact Hmod.
  - cbn [map AsmFn.run].
    rewrite (LL string_line_prep). rewrite (LL process_string).
    assert (Hni : ~ In s pre).
    { apply NoDup_remove_2 in Hnd. intros H. apply Hnd. apply in_or_app. left. exact H. }
    assert (Hadd : fst (add_string (a_mod st) s) = mkmod 0 0 (pre ++ [s]) [] []).
    { unfold add_string. rewrite Hmod. cbn [m_strings mkmod]. rewrite find_string_none by (apply notin_existsb, Hni). reflexivity. }
    rewrite Hadd.
    destruct (IH (pre ++ [s]) (set_mod st (mkmod 0 0 (pre ++ [s]) [] []))) as [st' [Hr [Em [E1 [E2 E3]]]]].
    + reflexivity.
    + rewrite <- app_assoc. exact Hnd.
    + exists st'. split; [exact Hr|]. rewrite <- app_assoc in Em. repeat split; assumption.
Qed.

(* ---------------------------------------------------------------- the text of a module, as lines *)
Definition mid_lines (m : module) : list text :=
  (match m_strings m with [] => [] | _ => [[]] end)
  ++ (if N.testbit (m_flags m) 0 then [entry_line (m_entry m); []] else []).
Definition module_lines (m : module) : list text :=
  map string_line (m_strings m) ++ mid_lines m ++ flat_map (fn_block m) (m_funcs m).

Lemma dis_strings_lines ss : flat_map dis_string ss = join (map string_line ss).
Proof.
  induction ss as [|s ss IH]; [reflexivity|]. cbn [flat_map map]. rewrite join_cons, IH.
  unfold dis_string, string_line. rewrite <- !app_assoc. reflexivity.
Qed.

Lemma body_text_lines m c : code_decodes TL c = true -> bytes_ok c -> disasm_function TL print_f64 m c = join (body_lines m c).
Proof.
  intros Hdec Hok. unfold code_decodes in Hdec. unfold body_lines.
  destruct (decode_all (length c) c 0) as [D|] eqn:Hd; [|discriminate].
  unfold disasm_function. cbv zeta. fold (fn_labels c).
  rewrite ((LL dis_body_lines) m (fn_labels c) D (S (length c)) (length c) c 0 Hd Hok) by lia. rewrite N.add_0_l. reflexivity.
Qed.

Lemma dis_fn_lines m f : fn_off f + fn_len f <= lenN (m_code m) -> lenN (m_code m) < 4294967296 -> bytes_ok (m_code m) ->
  code_decodes TL (code_of m f) = true -> dis_fn TL print_f64 m f = join (fn_block m f).
Proof.
  intros Hle Hlt Hbok Hdec. destruct (slice_spec (m_code m) _ _ Hle) as [Hc1 Hc2]. fold (code_of m f) in Hc1, Hc2.
  assert (Hcb : bytes_ok (code_of m f)) by (rewrite Hc1; apply bytes_ok_firstn, bytes_ok_skipn, Hbok).
  assert (Hfin : forall body, body = join (body_lines m (code_of m f)) ->
            B ".function " ++ fn_name_of m f ++ 32 :: print_dec (fn_arity f) ++ 32 :: print_dec (fn_locals f) ++ 32 :: print_dec (fn_upv f)
              ++ [10] ++ body ++ B ".end" ++ [10; 10] = join (fn_block m f)).
  { intros body ->. unfold fn_block. rewrite join_cons, join_app. unfold function_line.
    set (P := B ".function "). set (E := B ".end"). cbn [join flat_map].
    repeat first [rewrite <- !app_assoc | progress cbn [app]]. reflexivity. }
  unfold dis_fn. fold (code_of m f). fold (fn_name_of m f). apply Hfin.
  destruct (N.ltb_spec 0 (fn_len f)) as [Hpos|Hz].
  - unfold u32. rewrite N.mod_small by lia. destruct (N.leb_spec (fn_off f + fn_len f) (lenN (m_code m))); [|lia].
    cbn [andb]. apply body_text_lines; assumption.
  - cbn [andb]. assert (Hnil : code_of m f = []) by (destruct (code_of m f); [reflexivity|unfold lenN in Hc2; cbn [length] in Hc2; lia]).
    rewrite Hnil. reflexivity.
Qed.

Lemma dis_fns_lines m fs : (forall f, In f fs -> fn_off f + fn_len f <= lenN (m_code m) /\ code_decodes TL (code_of m f) = true) ->
  lenN (m_code m) < 4294967296 -> bytes_ok (m_code m) ->
  flat_map (dis_fn TL print_f64 m) fs = join (flat_map (fn_block m) fs).
Proof.
  intros H Hlt Hbok. induction fs as [|f fs IH]; [reflexivity|]. cbn [flat_map]. rewrite join_app.
  destruct (H f (or_introl eq_refl)) as [H1 H2]. rewrite (dis_fn_lines m f H1 Hlt Hbok H2), IH; [reflexivity|].
  intros g Hg. apply H. right. exact Hg.
Qed.

Lemma disasm_module_lines m :
  (forall f, In f (m_funcs m) -> fn_off f + fn_len f <= lenN (m_code m) /\ code_decodes TL (code_of m f) = true) ->
  lenN (m_code m) < 4294967296 -> bytes_ok (m_code m) ->
  disasm_module TL print_f64 m = join (module_lines m).
Proof.
  intros Hf Hlt Hbok. unfold disasm_module, module_lines, mid_lines. rewrite !join_app, dis_strings_lines, dis_fns_lines by assumption.
  rewrite <- !app_assoc. f_equal. f_equal; [destruct (m_strings m); reflexivity|]. f_equal.
  destruct (N.testbit (m_flags m) 0); [|reflexivity]. unfold entry_line. rewrite join_cons. cbn [join flat_map app].
  rewrite <- !app_assoc. reflexivity.
Qed.

(* ---------------------------------------------------------------- no line contains a newline or a NUL *)
Definition clean (l : text) : Prop := ~ In 10 l /\ ~ In 0 l.
Definition names_clean (m : module) : Prop := forall f s, In f (m_funcs m) -> nthN (m_strings m) (fn_name f) = Some s -> clean s.

Lemma cstr_sub s c : In c (cstr s) -> In c s.
Proof.
  induction s as [|x s IH]; intros H; [exact H|]. cbn [cstr] in H. destruct (x =? 0); [destruct H|].
  destruct H as [->|H]; [left; reflexivity|right; apply IH, H].
Qed.
Lemma plain_clean l : Forall (fun c => plain_char c = true) l -> clean l.
Proof. intros F. rewrite Forall_forall in F. split; intros H; specialize (F _ H); discriminate F. Qed.
Lemma clean_app a b : clean a -> clean b -> clean (a ++ b).
Proof. intros [A1 A2] [B1 B2]. split; intros H; apply in_app_or in H; tauto. Qed.

Lemma cstr_no0 s : ~ In 0 (cstr s).
Proof.
  induction s as [|x s IH]; [intros []|]. cbn [cstr]. destruct (N.eqb_spec x 0); [intros []|]. intros [H|H]; [congruence|exact (IH H)].
Qed.
Lemma esc_nl_clean s : ~ In 0 s -> clean (esc_nl s).
Proof.
  induction s as [|x s IH]; intros H0; [split; intros []|]. cbn [esc_nl].
  assert (H0' : ~ In 0 s) by (intros G; apply H0; right; exact G). destruct (IH H0') as [I1 I2].
  apply clean_app; [|split; assumption].
  destruct (N.eqb_spec x 10); [split; intros [G|[G|[]]]; discriminate|].
  split; intros [G|[]]; [congruence|]. apply H0. left. exact G.
Qed.

Lemma fmt_comment_clean m L pos o v : names_clean m -> clean (fmt_operands print_f64 m L pos o 0 [KU32] [v]).
Proof.
  intros Hs. cbn [Asm.fmt_operands Asm.fmt_operand]. rewrite app_nil_r.
  assert (Hd : clean (32 :: print_dec v)).
  { change (32 :: print_dec v) with ([32] ++ print_dec v). apply clean_app; [split; intros [H|[]]; discriminate|apply plain_clean, print_dec_plain]. }
  destruct ((o =? op_push_str) && Nat.eqb 0 0).
  - destruct (nthN (m_strings m) v) as [s|] eqn:E; [|exact Hd]. apply clean_app; [exact Hd|].
    apply clean_app; [split; intros H; repeat (destruct H as [H|H]; [discriminate|]); destruct H|].
    apply clean_app; [apply esc_nl_clean, cstr_no0|split; intros [H|[]]; discriminate].
  - destruct (((o =? op_call) || (o =? op_call_extern)) && Nat.eqb 0 0); [|exact Hd].
    destruct (nthN (m_funcs m) v) as [f|] eqn:Ef; [|exact Hd]. destruct (nthN (m_strings m) (fn_name f)) as [s|] eqn:E; [|exact Hd].
    apply clean_app; [exact Hd|]. apply clean_app; [split; intros H; repeat (destruct H as [H|H]; [discriminate|]); destruct H|].
    destruct (Hs f s (nthN_In _ _ _ Ef) E) as [C1 C2]. split; intros H; apply cstr_sub in H; tauto.
Qed.

Lemma printed_instr_clean m L p i : names_clean m -> instr_ok TL good L (p, i) -> clean (printed_instr TL print_f64 m L p i).
Proof.
  intros Hs [ks [HT Haok]]. cbn [fst snd] in *. unfold printed_instr. rewrite ((LL kinds_of_T) _ _ HT).
  destruct ((LL instr_printed) m L p i ks HT Haok) as [junk [Ej [Hj _]]]. rewrite Ej.
  destruct ((LL instr_line_facts) L p i ks HT Haok) as [_ [_ [N10 N0]]].
  apply clean_app; [split; assumption|].
  destruct Hj as [->|[_ [v [_ [_ Ev]]]]]; [split; intros []|].
  destruct (fmt_comment_clean m L p (op i) v Hs) as [C1 C2]. rewrite <- Ev in C1, C2.
  split; intros H; [apply C1|apply C2]; apply in_or_app; right; exact H.
Qed.

Lemma lbl_lines_clean L q : Forall clean (lbl_lines L q).
Proof.
  unfold lbl_lines. destruct (index_of q L 0); [|constructor]. constructor; [|constructor].
  apply clean_app; [apply plain_clean, all_ident_plain, label_name_ident|split; intros [H|[]]; discriminate].
Qed.

Lemma printed_lines_clean m L D e : names_clean m -> Forall (instr_ok TL good L) D -> Forall clean (printed_lines m L D e).
Proof.
  intros Hs Hok. unfold AsmFn.printed_lines. apply Forall_app. split; [|apply lbl_lines_clean].
  induction Hok as [|[p i] D Hpi Hok IH]; [constructor|]. cbn [flat_map fst snd]. apply Forall_app. split; [|exact IH].
  apply Forall_app. split; [apply lbl_lines_clean|]. constructor; [|constructor]. apply printed_instr_clean; assumption.
Qed.

Lemma join_clean ls : Forall clean ls -> Forall (fun l => ~ In 10 l) ls /\ ~ In 0 (join ls).
Proof.
  intros F. split; [eapply Forall_impl; [|exact F]; intros l [H _]; exact H|].
  induction F as [|l ls [_ H0] F IH]; [intros []|]. rewrite join_cons. intros H. apply in_app_or in H.
  destruct H as [H|[H|H]]; [tauto|discriminate|tauto].
Qed.

(* ---------------------------------------------------------------- unpacking wf_moduleb *)
Lemma layout_bounds fs : forall off total, layout_okb fs off total = true -> forall f, In f fs -> fn_off f + fn_len f <= total.
Proof.
  induction fs as [|g fs IH]; intros off total H f Hin; [destruct Hin|]. cbn [layout_okb] in H. apply andb_true_iff in H.
  destruct H as [Ho H]. apply N.eqb_eq in Ho. destruct Hin as [->|Hin]; [pose proof (layout_le _ _ _ H); lia|eapply IH; eassumption].
Qed.

Record wf_facts (m : module) : Prop := {
  wf_nodup : distinct_strs (m_strings m) = true;
  wf_fgood : Forall (fent_good m) (m_funcs m);
  wf_lay : layout_okb (m_funcs m) 0 (lenN (m_code m)) = true;
  wf_clen : lenN (m_code m) < 4294967296;
  wf_cbytes : bytes_ok (m_code m);
  wf_ent : m_entry m < 4294967296 }.

Lemma wf_unpack m : wf_moduleb TL good m = true -> wf_facts m.
Proof.
  unfold wf_moduleb, wf_conjuncts. cbn [forallb]. rewrite !andb_true_iff.
  intros [_ [Hdist [Hff [Hfn [Hlay [Hcb [Hdec [Hpt [Hf64 [Hent _]]]]]]]]]].
  unfold wf_layout in Hlay. apply andb_true_iff in Hlay. destruct Hlay as [Hlay Hcl]. apply N.ltb_lt in Hcl.
  constructor.
  - exact Hdist.
  - apply Forall_forall. intros f Hf. unfold wf_fn_fields, wf_fn_names, wf_code_decodes, wf_code_patches, wf_code_f64, all_codes in *.
    rewrite forallb_forall in Hff, Hfn, Hdec, Hpt, Hf64.
    specialize (Hff f Hf). specialize (Hfn f Hf). rewrite !andb_true_iff, !N.ltb_lt in Hff. destruct Hff as [[Ha Hl] Hu].
    unfold fent_good. split; [|split; [exact Ha|split; [exact Hl|split; [exact Hu|]]]].
    + destruct (nthN (m_strings m) (fn_name f)) as [nm|]; [|discriminate]. exists nm. split; [reflexivity|exact Hfn].
    + unfold wf_codeb. rewrite (Hdec f Hf), (Hpt f Hf), (Hf64 f Hf). reflexivity.
  - exact Hlay.
  - exact Hcl.
  - unfold wf_code_bytes in Hcb. apply bytes_okb_spec. exact Hcb.
  - unfold wf_entry in Hent. apply N.ltb_lt. exact Hent.
Qed.

Lemma names_clean_of m : Forall (fent_good m) (m_funcs m) -> names_clean m.
Proof.
  intros F f s Hf Hs. rewrite Forall_forall in F. destruct (F f Hf) as [[name [Hn Hok]] _]. rewrite Hs in Hn. inversion Hn; subst.
  unfold fname_okb in Hok. rewrite !andb_true_iff in Hok. destruct Hok as [[Hid _] _]. apply plain_clean, all_ident_plain, Hid.
Qed.

Lemma fn_block_clean m f : names_clean m -> fent_good m f -> bytes_ok (code_of m f) -> Forall clean (fn_block m f).
Proof.
  intros Hs [[name [Hname Hfn]] [_ [_ [_ Hwf]]]] Hbok. unfold fn_block, fn_name_of. rewrite Hname.
  unfold fname_okb in Hfn. rewrite !andb_true_iff in Hfn. destruct Hfn as [[Hid _] _].
  rewrite (cstr_id name (all_ident_no0 _ Hid)).
  constructor.
  - destruct ((LL function_line_facts) name f Hid) as [_ [_ [H10 H0]]]. split; assumption.
  - apply Forall_app. split.
    + unfold body_lines. destruct (decode_all (length (code_of m f)) (code_of m f) 0) as [D|] eqn:Hd; [|constructor].
      unfold wf_codeb in Hwf. rewrite !andb_true_iff in Hwf. destruct Hwf as [[_ _] Hf].
      apply printed_lines_clean; [exact Hs|apply instr_ok_of; assumption].
    + constructor; [split; intros H; repeat (destruct H as [H|H]; [discriminate|]); destruct H|].
      constructor; [split; intros []|constructor].
Qed.

Lemma module_lines_clean m : wf_facts m -> Forall clean (module_lines m).
Proof.
  intros W. destruct W. unfold module_lines, mid_lines. apply Forall_app. split; [|apply Forall_app; split; [apply Forall_app; split|]].
  - apply Forall_forall. intros l Hl. apply in_map_iff in Hl. destruct Hl as [s [<- Hs]].
    unfold string_line. apply clean_app; [split; intros H; repeat (destruct H as [H|H]; [discriminate|]); destruct H|].
    apply clean_app; [exact (escape_clean s)|split; intros [H|[]]; discriminate].
  - destruct (m_strings m); [constructor|]. constructor; [split; intros []|constructor].
  - destruct (N.testbit (m_flags m) 0); [|constructor]. constructor; [|constructor; [split; intros []|constructor]].
    destruct ((LL dec_line_facts) (B ".entry ") (m_entry m)) as [_ [_ [H10 H0]]]; [|split; assumption].
    repeat (constructor; [first [left; reflexivity | right; reflexivity]|]). constructor.
  - apply Forall_forall. intros l Hl. apply in_flat_map in Hl. destruct Hl as [f [Hf Hl]].
    pose proof (names_clean_of m wf_fgood0) as Hnc. rewrite Forall_forall in wf_fgood0.
    assert (Hb : bytes_ok (code_of m f)).
    { pose proof (layout_bounds _ _ _ wf_lay0 f Hf) as Hle. destruct (slice_spec (m_code m) _ _ Hle) as [E _]. fold (code_of m f) in E.
      rewrite E. apply bytes_ok_firstn, bytes_ok_skipn, wf_cbytes0. }
    pose proof (fn_block_clean m f Hnc (wf_fgood0 f Hf) Hb) as F. rewrite Forall_forall in F. apply F, Hl.
Qed.

(* ---------------------------------------------------------------- the theorem *)
Theorem asm_disasm_module m : wf_moduleb TL good m = true ->
  exists m', asm_assemble TL parse_f64 (disasm_module TL print_f64 m) = AOk m' /\
             m_strings m' = m_strings m /\ m_funcs m' = m_funcs m /\ m_code m' = m_code m /\
             (N.testbit (m_flags m) 0 = true -> m_entry m' = m_entry m /\ N.testbit (m_flags m') 0 = true).
Proof.
  intros Hwf. pose proof (wf_unpack m Hwf) as W. pose proof (module_lines_clean m W) as Hclean. destruct W.
  destruct (join_clean _ Hclean) as [H10 H0].
  assert (Hdl : disasm_module TL print_f64 m = join (module_lines m)).
  { apply disasm_module_lines; try assumption.
    intros f Hf. split; [eapply layout_bounds; eassumption|]. rewrite Forall_forall in wf_fgood0.
    destruct (wf_fgood0 f Hf) as [_ [_ [_ [_ Hc]]]]. unfold wf_codeb in Hc. rewrite !andb_true_iff in Hc. tauto. }
  unfold asm_assemble. rewrite Hdl, (cstr_id _ H0), (split_join_all _ H10).
  destruct (run_strings (m_strings m) [] (init_state) eq_refl (distinct_NoDup _ wf_nodup0))
    as [st_s [Hr_s [Em_s [Ei_s [Ep_s El_s]]]]]. cbn [app] in Em_s.
  set (fl := if N.testbit (m_flags m) 0 then flag_has_main else 0).
  set (en := if N.testbit (m_flags m) 0 then m_entry m else 0).
  assert (Hmid : exists st_m, run st_s (mid_lines m) = inl st_m /\
            a_mod st_m = mkmod fl en (m_strings m) [] [] /\ a_in_fn st_m = false /\ a_patches st_m = [] /\ a_labels st_m = []).
  { unfold mid_lines. match goal with |- context [AsmFn.run TL parse_f64 st_s (?a ++ ?b)] => set (bl := a) end.
    assert (Hb : run st_s bl = inl st_s).
    { unfold bl. destruct (m_strings m); [reflexivity|]. cbn [AsmFn.run]. rewrite (LL process_blank). reflexivity. }
    rewrite (LL run_app).
    rewrite Hb. unfold fl, en. destruct (N.testbit (m_flags m) 0).
    - cbn [AsmFn.run]. rewrite (LL process_entry) by exact wf_ent0. rewrite (LL process_blank).
      eexists. split; [reflexivity|]. unfold set_mod. cbn [a_mod a_in_fn a_patches a_labels]. rewrite Em_s. cbn [mkmod m_flags m_strings m_funcs m_code].
      repeat split; assumption.
    - exists st_s. repeat split; assumption. }
  destruct Hmid as [st_m [Hr_m [Em_m [Ei_m [Ep_m El_m]]]]].
  assert (Hoff0 : 0 <= lenN (m_code m)) by lia.
  destruct (run_fns m fl en wf_nodup0 wf_cbytes0 wf_clen0 (m_funcs m) [] 0 st_m Em_m Hoff0 Ei_m Ep_m El_m wf_lay0 wf_fgood0)
    as [st_f [Hr_f [Em_f Ei_f]]].
  assert (Hrun : run init_state (module_lines m) = inl st_f).
  { unfold module_lines. rewrite (LL run_app), Hr_s. rewrite (LL run_app), Hr_m. exact Hr_f. }
  rewrite ((LL asm_lines_run) _ _ _ 0 Hrun), Ei_f. exists (a_mod st_f). split; [reflexivity|]. rewrite Em_f. cbn [app mkmod m_strings m_funcs m_code m_entry m_flags].
  repeat split; unfold en, fl; rewrite H; reflexivity.
Qed.

End Proofs.

(* ---------------------------------------------------------------- refusals *)
Lemma asm_unknown_mnemonic TL parse_f64 st mn rest :
  opcode_by_name TL mn = None -> asm_instruction TL parse_f64 st mn rest = inr asm_err_unknown_opcode.
Proof. intros H. unfold asm_instruction. rewrite H. reflexivity. Qed.

Lemma resolve_undefined ls cur : forall ps code,
  (exists p, In p ps /\ p_fn p = cur /\ find_label ls (p_label p) cur = None) -> resolve ps ls cur code = None.
Proof.
  induction ps as [|q ps IH]; intros code [p [Hin [Hfn Hnone]]]; [destruct Hin|].
  cbn [resolve]. destruct Hin as [->|Hin].
  - rewrite Hfn, N.eqb_refl. cbn [negb]. rewrite Hnone. reflexivity.
  - destruct (negb (p_fn q =? cur)); [apply IH; exists p; tauto|].
    destruct (find_label ls (p_label q) cur); [apply IH; exists p; tauto|reflexivity].
Qed.

(* .end with a pending reference to a label that the function never defined is refused with ASM_ERR_UNDEFINED_LABEL *)
Lemma asm_undefined_label TL parse_f64 st :
  a_in_fn st = true ->
  (exists p, In p (a_patches st) /\ p_fn p = a_cur st /\ find_label (a_labels st) (p_label p) (a_cur st) = None) ->
  process_line TL parse_f64 st (B ".end") = inr asm_err_undefined_label.
Proof.
  intros Hin Hex.
  unfold process_line. cbv zeta. change (skip_ws (B ".end")) with (B ".end"). change (line_end (B ".end")) with false. cbn iota.
  change (starts 46 (B ".end")) with (Some (B "end")). cbn iota.
  change (parse_identifier (B "end") directive_buf) with (Some (B "end", @nil byte)). cbn iota.
  unfold do_directive. change (bytes_eqb (B "end") (B "string")) with false. change (bytes_eqb (B "end") (B "function")) with false.
  change (bytes_eqb (B "end") (B "end")) with true. cbn iota. rewrite Hin. cbn [negb].
  rewrite (resolve_undefined _ _ _ _ Hex). reflexivity.
Qed.

(* ---------------------------------------------------------------- the oracle hypothesis is satisfiable *)
(* a toy float text (the bit pattern in decimal) meets f64_text_ok for every pattern below 2^63: the hypothesis of the
   theorem is consistent.  It is NOT printf/strtod; those are tied by the correspondence run. *)
Definition toy_print (v : N) : text := print_dec v.
Definition toy_parse (l : text) : option (N * text) :=
  match strtoll l with Some (z, r) => Some (Z.to_N z, r) | None => None end.
Definition toy_good (v : N) : bool := v <? 9223372036854775808.
Lemma toy_oracle_ok v : toy_good v = true -> f64_text_ok toy_print toy_parse v.
Proof.
  unfold toy_good. intros H. apply N.ltb_lt in H. unfold f64_text_ok, toy_print, toy_parse.
  split; [apply print_dec_plain|]. split; [apply print_dec_nonempty|]. split.
  - pose proof (print_dec_all_digits v) as F. destruct (print_dec v) as [|c r]; [discriminate|]. inversion F; subst.
    cbn [hd]. pose proof (dec_char_bounds c H2). lia.
  - intros rest Hs. rewrite strtoll_print_dec by assumption. rewrite N2Z.id. reflexivity.
Qed.

(* ---------------------------------------------------------------- boolean judge used by the refutation witnesses *)
Fixpoint list_eqb {A} (eqb : A -> A -> bool) (a b : list A) : bool :=
  match a, b with [], [] => true | x :: a', y :: b' => eqb x y && list_eqb eqb a' b' | _, _ => false end.
Definition same_csf (a b : module) : bool :=
  list_eqb bytes_eqb (m_strings a) (m_strings b)
  && bytes_eqb (m_code a) (m_code b)
  && list_eqb (fun f g => (fn_name f =? fn_name g) && (fn_arity f =? fn_arity g) && (fn_off f =? fn_off g) &&
                               (fn_len f =? fn_len g) && (fn_locals f =? fn_locals g) && (fn_upv f =? fn_upv g)) (m_funcs a) (m_funcs b).
Definition roundtrip_ok TL pf sf (m : module) : bool :=
  match asm_assemble TL sf (disasm_module TL pf m) with AOk m' => same_csf m m' | AErr _ _ => false end.
Definition roundtrip_err TL pf sf (m : module) : option (N * N) :=
  match asm_assemble TL sf (disasm_module TL pf m) with AOk _ => None | AErr c l => Some (c, l) end.

(* ---------------------------------------------------------------- the fast evaluation of the hypothesis is the hypothesis *)
Lemma forallb_map_nth {A} (g : A -> list bool) k (l : list A) :
  forallb (fun r => nth k r true) (map g l) = forallb (fun x => nth k (g x) true) l.
Proof. induction l as [|x l IH]; [reflexivity|]. cbn [map forallb]. rewrite IH. reflexivity. Qed.
Lemma wf_conjuncts_fast_eq TL good m : wf_conjuncts_fast TL good m = wf_conjuncts TL good m.
Proof.
  unfold wf_conjuncts_fast, wf_conjuncts. cbv zeta. rewrite !forallb_map_nth.
  unfold wf_code_decodes, wf_code_patches, wf_code_f64, all_codes.
  assert (E : forall k (chk : list byte -> bool), (forall c, nth k (code_checks TL good c) true = chk c) ->
              forallb (fun x => nth k (code_checks TL good (code_of m x)) true) (m_funcs m) = forallb (fun f => chk (code_of m f)) (m_funcs m)).
  { intros k chk H. induction (m_funcs m) as [|f fs IH]; [reflexivity|]. cbn [forallb]. rewrite H, IH. reflexivity. }
  rewrite (E 0%nat (code_decodes TL)), (E 1%nat (code_patches TL)), (E 2%nat (code_f64 TL good)); [reflexivity| | |];
    intros c; unfold code_checks, code_decodes, code_patches, code_f64, on_code;
    destruct (decode_all TL (length c) c 0); reflexivity.
Qed.
