(* asm_assemble (disasm_module m) = m on strings, function table and code: the module-level theorem and the witnesses that
   show which of its hypotheses the real tools need (proofs for NV.Isa.Asm). *)
From Coq Require Import NArith ZArith List Lia Bool.
From Coq Require String.
Import String.StringSyntax.
From NV Require Import Base.Bytes Isa.Codec Isa.CodecProofs Isa.Asm Isa.AsmDec Isa.AsmLex Isa.AsmLine Isa.AsmFn Isa.AsmMod gen.AsmConsts.
Import ListNotations.
Local Open Scope N_scope.

(* ---------------------------------------------------------------- pure list facts *)
Lemma chain_positions TL : forall D p e, chain TL p D e -> Forall (fun q => p <= q < e) (map fst D) /\ p <= e /\ NoDup (map fst D ++ [e]).
Proof.
  induction D as [|[p0 i] D IH]; intros p e H; inversion H as [|? ? ? ? Hch]; subst.
  - cbn. split; [constructor|]. split; [lia|]. constructor; [intros []|constructor].
  - assert (Hpos : 0 < lenN (ienc TL i)) by (unfold ienc; rewrite lenN_cons; lia).
    destruct (IH _ _ Hch) as [F [Hle Hnd]]. cbn [map fst].
    split; [|split; [lia|]].
    + constructor; [lia|]. eapply Forall_impl; [|exact F]. cbn beta. intros q Hq. lia.
    + cbn [app]. constructor; [|exact Hnd]. intros Hin. apply in_app_or in Hin. destruct Hin as [Hin|[<-|[]]]; [|lia].
      rewrite Forall_forall in F. specialize (F _ Hin). lia.
Qed.

Lemma mem_N_In_pure t : forall L, mem_N t L = true -> In t L.
Proof.
  induction L as [|y L IH]; intros H; [discriminate|]. cbn [mem_N] in H.
  destruct (N.eqb_spec t y) as [->|]; [left; reflexivity|right; apply IH, H].
Qed.
Lemma filter_count_le (L ps : list N) : NoDup ps -> lenN (filter (fun q => mem_N q L) ps) <= lenN L.
Proof.
  intros Hnd.
  assert (H : (length (filter (fun q => mem_N q L) ps) <= length L)%nat).
  { apply NoDup_incl_length; [apply NoDup_filter, Hnd|].
    intros q Hq. apply filter_In in Hq. apply mem_N_In_pure. exact (proj2 Hq). }
  unfold lenN. lia.
Qed.

Section Proofs.
Variable TL : list (N * (String.string * list okind)).
Variable print_f64 : N -> text.
Variable parse_f64 : text -> option (N * text).
Variable good : N -> bool.
Hypothesis Hnames : names_ok TL = true.
Hypothesis Hcmt : comment_ops_ok TL = true.
Hypothesis Horacle : forall v, good v = true -> f64_text_ok print_f64 parse_f64 v.
Set Default Proof Using "All".
Local Notation "'LL' f" := (f TL print_f64 parse_f64 good Hnames Hcmt Horacle) (at level 10, f at level 9).

Let T : table_t := table_of TL.
Notation run := (run TL parse_f64).
Notation process_line := (process_line TL parse_f64).
Notation fn_labels := (fn_labels TL).
Notation decode_all := (decode_all TL).
Notation printed_lines := (printed_lines TL print_f64).
Notation kinds_of := (kinds_of TL).

(* ---------------------------------------------------------------- facts about collect *)
Lemma add_targets_len ks : forall vs pos cs labels, lenN labels <= max_disasm_labels ->
  lenN (add_targets ks vs pos cs labels) <= max_disasm_labels.
Proof.
  induction ks as [|k ks IH]; intros [|v vs] pos cs labels H; cbn [add_targets]; try exact H.
  apply IH. destruct (okind_eqb k KI32); [|exact H].
  destruct ((u32 (pos + v) <=? cs) && negb (mem_N (u32 (pos + v)) labels)); cbn [andb]; [|exact H].
  destruct (N.ltb_spec (lenN labels) max_disasm_labels); [|exact H]. rewrite lenN_app. unfold lenN at 2. cbn [length]. lia.
Qed.
Lemma collect_len fuel : forall cs bs pos labels, lenN labels <= max_disasm_labels ->
  lenN (collect TL fuel cs bs pos labels) <= max_disasm_labels.
Proof.
  induction fuel as [|f IH]; intros cs bs pos labels H; cbn [collect]; [exact H|].
  destruct (decode (table_of TL) bs) as [[i n]|]; [|exact H]. apply IH, add_targets_len, H.
Qed.
Lemma fn_labels_len c : lenN (fn_labels c) <= max_disasm_labels.
Proof. unfold Asm.fn_labels. apply collect_len. unfold max_disasm_labels. cbn. lia. Qed.

(* ---------------------------------------------------------------- from the boolean conjuncts to the hypotheses of run_body *)
Lemma args_ok_of L p ks : forall vs, wf_args ks vs -> targets_ok ks vs p L = true -> f64s_ok good ks vs = true ->
  args_ok good L p ks vs.
Proof.
  induction ks as [|k ks IH]; intros [|v vs] Hw Ht Hf; cbn [wf_args targets_ok f64s_ok AsmLine.args_ok] in *; try contradiction; [exact I|].
  destruct Hw as [Hv Hw]. apply andb_true_iff in Ht. destruct Ht as [Ht1 Ht]. apply andb_true_iff in Hf. destruct Hf as [Hf1 Hf].
  split; [|apply IH; assumption]. split; [exact Hv|]. split; intros ->; [exact Ht1|exact Hf1].
Qed.

Lemma instr_ok_of c D : decode_all (length c) c 0 = Some D -> bytes_ok c -> code_targets TL c = true -> code_f64 TL good c = true ->
  Forall (instr_ok TL good (fn_labels c)) D.
Proof.
  intros Hd Hok Ht Hf. destruct ((LL decode_all_spec) _ _ _ _ Hok Hd) as [_ [_ Hwf]].
  unfold code_targets, code_f64, on_code in *. rewrite Hd in *. rewrite forallb_forall in Ht, Hf.
  rewrite Forall_forall in *. intros [p i] Hin. destruct (Hwf _ Hin) as [ks [HT Hw]]. cbn [fst snd] in *.
  exists ks. split; [exact HT|]. cbn [fst snd].
  specialize (Ht _ Hin). specialize (Hf _ Hin). cbn [fst snd] in Ht, Hf. rewrite ((LL kinds_of_T) _ _ HT) in Ht, Hf.
  apply args_ok_of; assumption.
Qed.

End Proofs.
