(* NanoISA text form: executable model of disasm_module (src/nanoisa/disassembler.c) and of the two-pass
   assembler asm_assemble (src/nanoisa/assembler.c), at the level of BYTES of the assembly text.
   The model states what the C does: quote-aware comment stripping, the `; "..."` comment with its newline escape, the
   label cap with numeric fallback, labels only on instruction boundaries, the per-function label table, the patch table
   whose overflow is an error.
   The only thing not modelled by a Coq function is printf("%.17g") / strtod of a double: [print_f64]/[parse_f64]
   are Section variables (an oracle); every theorem states the hypothesis it needs about them.
   No proofs in this file (it is extracted). *)
From Coq Require Import NArith ZArith List Bool Ascii.
From Coq Require String.
Import String.StringSyntax.
From NV Require Import Base.Bytes Isa.Codec gen.AsmConsts.
Import ListNotations.
Local Open Scope N_scope.

Definition text := list byte.

Fixpoint B (s : String.string) : text :=
  match s with String.EmptyString => [] | String.String a r => N_of_ascii a :: B r end.
Arguments B s%string_scope.

(* ------------------------------------------------------------------------------------------------ modules *)
Record fent := { fn_name : N; fn_arity : N; fn_off : N; fn_len : N; fn_locals : N; fn_upv : N }.
Record module := { m_flags : N; m_entry : N; m_strings : list (list byte); m_funcs : list fent; m_code : list byte }.

Definition u32 (n : N) : N := n mod 4294967296.
Definition u16 (n : N) : N := n mod 65536.

Fixpoint nthN {A} (l : list A) (i : N) : option A :=
  match l with [] => None | x :: r => if i =? 0 then Some x else nthN r (N.pred i) end.
Definition lenN {A} (l : list A) : N := N.of_nat (length l).

Fixpoint bytes_eqb (a b : list byte) : bool :=
  match a, b with [] , [] => true | x :: a', y :: b' => (x =? y) && bytes_eqb a' b' | _, _ => false end.

(* nvm_add_string: index of the first equal string, else appended *)
Fixpoint find_string (l : list (list byte)) (s : list byte) (i : N) : option N :=
  match l with [] => None | x :: r => if bytes_eqb x s then Some i else find_string r s (N.succ i) end.
Definition add_string (m : module) (s : list byte) : module * N :=
  match find_string (m_strings m) s 0 with
  | Some i => (m, i)
  | None => ({| m_flags := m_flags m; m_entry := m_entry m; m_strings := m_strings m ++ [s];
                m_funcs := m_funcs m; m_code := m_code m |}, lenN (m_strings m))
  end.

(* what printf("%s") shows of a stored string: up to the first NUL *)
Fixpoint cstr (s : list byte) : list byte :=
  match s with [] => [] | c :: r => if c =? 0 then [] else c :: cstr r end.

(* ------------------------------------------------------------------------------------------------ decimal *)
Fixpoint le_digits (fuel : nat) (n : N) : list N :=
  match fuel with O => [] | S f => (n mod 10) :: (if n / 10 =? 0 then [] else le_digits f (n / 10)) end.
Definition print_dec (n : N) : text := map (fun d => 48 + d) (rev (le_digits (S (N.to_nat (N.size n))) n)).
Definition print_sdec (z : Z) : text :=
  if (z <? 0)%Z then 45 :: print_dec (Z.abs_N z) else print_dec (Z.to_N z).
Definition hex_digit (d : N) : byte := if d <? 10 then 48 + d else 87 + d.
Definition print_hex2 (b : N) : text :=         (* printf("%02x") of a byte *)
  [hex_digit (b / 16 mod 16); hex_digit (b mod 16)].

(* strtoll(p, &end, 0) followed by the errno test of parse_int64: None = no conversion or ERANGE *)
Definition is_space (c : byte) : bool := (c =? 32) || ((9 <=? c) && (c <=? 13)).
Definition digit_val (c : byte) : option N :=
  if (48 <=? c) && (c <=? 57) then Some (c - 48)
  else if (97 <=? c) && (c <=? 122) then Some (c - 87)
  else if (65 <=? c) && (c <=? 90) then Some (c - 55) else None.
Definition valid_digit (base : N) (c : byte) : bool :=
  match digit_val c with Some d => d <? base | None => false end.
Fixpoint parse_num (base : N) (l : text) (acc : N) : N * text :=
  match l with
  | [] => (acc, [])
  | c :: r => match digit_val c with
              | Some d => if d <? base then parse_num base r (acc * base + d) else (acc, l)
              | None => (acc, l) end
  end.
Fixpoint drop_space (l : text) : text :=
  match l with c :: r => if is_space c then drop_space r else l | [] => [] end.
Definition starts (c : byte) (l : text) : option text :=
  match l with x :: r => if x =? c then Some r else None | [] => None end.
Definition strtoll (l : text) : option (Z * text) :=
  let l1 := drop_space l in
  let neg := match l1 with c :: _ => c =? 45 | [] => false end in
  let l2 := match l1 with c :: r => if (c =? 45) || (c =? 43) then r else l1 | [] => [] end in
  let is_hex := match l2 with
                | c :: x :: h :: _ => (c =? 48) && ((x =? 120) || (x =? 88)) && valid_digit 16 h
                | _ => false end in
  let base := if is_hex then 16 else match l2 with c :: _ => if c =? 48 then 8 else 10 | [] => 10 end in
  let l3 := if is_hex then skipn 2 l2 else l2 in
  match l3 with
  | [] => None
  | c :: _ =>
      if valid_digit base c then
        let '(v, rest) := parse_num base l3 0 in
        if neg then (if v <=? 9223372036854775808 then Some ((- Z.of_N v)%Z, rest) else None)
        else (if v <? 9223372036854775808 then Some (Z.of_N v, rest) else None)
      else None
  end.

(* ------------------------------------------------------------------------------------------------ parsing helpers *)
Fixpoint skip_ws (l : text) : text :=
  match l with c :: r => if (c =? 32) || (c =? 9) then skip_ws r else l | [] => [] end.
Definition is_alpha_ (c : byte) : bool :=
  ((65 <=? c) && (c <=? 90)) || ((97 <=? c) && (c <=? 122)) || (c =? 95).
Definition is_ident (c : byte) : bool := is_alpha_ c || ((48 <=? c) && (c <=? 57)).
Fixpoint span_ident (l : text) : text * text :=
  match l with
  | c :: r => if is_ident c then let '(a, b) := span_ident r in (c :: a, b) else ([], l)
  | [] => ([], []) end.
Fixpoint all_ident (l : text) : bool := match l with [] => true | c :: r => is_ident c && all_ident r end.
(* parse_identifier(&p, out, out_size): fails when the identifier does not fit or is empty *)
Definition parse_identifier (l : text) (out_size : N) : option (text * text) :=
  let '(id, rest) := span_ident (skip_ws l) in
  if out_size <=? lenN id then None else
  match id with [] => None | _ => Some (id, rest) end.
Definition parse_int64 (l : text) : option (Z * text) := strtoll (skip_ws l).
Definition parse_range (lo hi : Z) (l : text) : option (Z * text) :=
  match parse_int64 l with
  | Some (v, r) => if (v <? lo)%Z || (hi <? v)%Z then None else Some (v, r)
  | None => None end.
Definition parse_unsigned (hi : Z) (l : text) : option (N * text) :=
  match parse_range 0 hi l with Some (v, r) => Some (Z.to_N v, r) | None => None end.

(* parse_quoted_string(&p, out, out_size, &len): inl (bytes, rest) | inr false = refused | inr true = the C reads
   past the end of the line (backslash as last character of the line) *)
Fixpoint quoted_body (fuel : nat) (l : text) (acc : list byte) (n : N) (out_size : N) : (list byte * text) + bool :=
  match fuel with O => inr false | S f =>
    match l with
    | [] => inr false                                   (* no closing quote *)
    | c :: r =>
        if c =? 34 then inl (rev acc, r)
        else if out_size <=? n + 1 then inr false
        else if c =? 92 then
          match r with
          | [] => inr true                              (* the C pointer steps over the terminating NUL *)
          | e :: r' =>
              let v := if e =? 110 then 10 else if e =? 116 then 9 else if e =? 48 then 0 else e in
              quoted_body f r' (v :: acc) (n + 1) out_size
          end
        else quoted_body f r (c :: acc) (n + 1) out_size
    end
  end.
Definition parse_quoted_string (l : text) (out_size : N) : (list byte * text) + bool :=
  match starts 34 (skip_ws l) with
  | Some r => quoted_body (S (length r)) r [] 0 out_size
  | None => inr false end.

(* ------------------------------------------------------------------------------------------------ the oracle *)
Section WithTable.
Variable TL : list (N * (String.string * list okind)).
Variable print_f64 : N -> text.                       (* printf(" %.17g") of the double with these bits, without the blank *)
Variable parse_f64 : text -> option (N * text).       (* strtod + errno test of parse_double, after skip_whitespace *)

Let T : table_t := table_of TL.

(* ------------------------------------------------------------------------------------------------ disassembler *)
Fixpoint mem_N (x : N) (l : list N) : bool := match l with [] => false | y :: r => (x =? y) || mem_N x r end.
Fixpoint index_of (x : N) (l : list N) (i : N) : option N :=
  match l with [] => None | y :: r => if x =? y then Some i else index_of x r (N.succ i) end.

(* one instruction of collect_jump_targets *)
Fixpoint add_targets (ks : list okind) (vs : list N) (pos code_size : N) (labels : list N) : list N :=
  match ks, vs with
  | k :: ks', v :: vs' =>
      let labels' :=
        if okind_eqb k KI32 then
          let target := u32 (pos + v) in
          if (target <=? code_size) && negb (mem_N target labels) && (lenN labels <? max_disasm_labels)
          then labels ++ [target] else labels
        else labels in
      add_targets ks' vs' pos code_size labels'
  | _, _ => labels
  end.
Definition kinds_of (o : N) : list okind := match T o with Some ks => ks | None => [] end.
Fixpoint collect (fuel : nat) (code_size : N) (bs : list byte) (pos : N) (labels : list N) : list N :=
  match fuel with O => labels | S f =>
    match decode T bs with
    | None => labels
    | Some (i, n) => collect f code_size (skipn n bs) (pos + N.of_nat n)
                       (add_targets (kinds_of (op i)) (args i) pos code_size labels)
    end
  end.

(* the string inside the `; "..."` comment of PUSH_STR: newline printed as \n *)
Fixpoint esc_nl (s : list byte) : text :=
  match s with [] => [] | c :: r => (if c =? 10 then [92; 110] else [c]) ++ esc_nl r end.

(* the positions disasm_function's boundary scan visits: instruction starts, one byte forward where nothing decodes *)
Fixpoint walk (fuel : nat) (bs : list byte) (pos : N) : list N :=
  match fuel with O => [] | S f =>
    match bs with
    | [] => []
    | _ :: r => pos :: match decode T bs with
                       | Some (_, n) => walk f (skipn n bs) (pos + N.of_nat n)
                       | None => walk f r (pos + 1) end
    end
  end.
Definition on_boundary (c : list byte) (t : N) : bool := (t =? lenN c) || mem_N t (walk (length c) c 0).
(* collect_jump_targets, then only the targets on an instruction boundary (or the end) keep a label, renumbered in order *)
Definition fn_labels (c : list byte) : list N := filter (on_boundary c) (collect (length c) (lenN c) c 0 []).

Definition label_name (i : N) : text := 76 :: print_dec i.          (* "L%u" *)
Definition label_line (labels : list N) (pos : N) : text :=
  match index_of pos labels 0 with Some i => label_name i ++ [58; 10] | None => [] end.

Definition name_bytes (o : N) : text := match name_of TL o with Some s => B s | None => B "???" end.

Definition fmt_operand (m : module) (labels : list N) (pos : N) (o : N) (idx : nat) (k : okind) (v : N) : text :=
  match k with
  | KU8 | KU16 => 32 :: print_dec v
  | KU32 =>
      let plain := 32 :: print_dec v in
      if (o =? op_push_str) && Nat.eqb idx 0 then
        match nthN (m_strings m) v with
        | Some s => plain ++ B "  ; """ ++ esc_nl (cstr s) ++ [34]
        | None => plain end
      else if ((o =? op_call) || (o =? op_call_extern)) && Nat.eqb idx 0 then
        match nthN (m_funcs m) v with
        | Some f => match nthN (m_strings m) (fn_name f) with
                    | Some s => plain ++ B "  ; " ++ cstr s
                    | None => plain end
        | None => plain end
      else plain
  | KI32 =>
      match index_of (u32 (pos + v)) labels 0 with
      | Some i => 32 :: label_name i
      | None => 32 :: print_sdec (to_signed 32 v) end
  | KI64 => 32 :: print_sdec (to_signed 64 v)
  | KF64 => 32 :: print_f64 v
  end.
Fixpoint fmt_operands (m : module) (labels : list N) (pos o : N) (idx : nat) (ks : list okind) (vs : list N) : text :=
  match ks, vs with
  | k :: ks', v :: vs' => fmt_operand m labels pos o idx k v ++ fmt_operands m labels pos o (S idx) ks' vs'
  | _, _ => [] end.

Fixpoint dis_body (fuel : nat) (m : module) (labels : list N) (bs : list byte) (pos : N) : text :=
  match fuel with O => [] | S f =>
    match bs with
    | [] => label_line labels pos
    | b0 :: r =>
        label_line labels pos ++
        match decode T bs with
        | None => B "  ; ERROR: invalid opcode 0x" ++ print_hex2 b0 ++ B " at offset " ++ print_dec pos ++ [10]
                  ++ dis_body f m labels r (pos + 1)
        | Some (i, n) => 32 :: 32 :: name_bytes (op i) ++ fmt_operands m labels pos (op i) 0 (kinds_of (op i)) (args i) ++ [10]
                         ++ dis_body f m labels (skipn n bs) (pos + N.of_nat n)
        end
    end
  end.
Definition disasm_function (m : module) (code : list byte) : text :=
  dis_body (S (length code)) m (fn_labels code) code 0.

Fixpoint escape (s : list byte) : text :=
  match s with
  | [] => []
  | c :: r => (if c =? 0 then [92; 48] else if c =? 10 then [92; 110] else if c =? 9 then [92; 116] else if c =? 92 then [92; 92]
               else if c =? 34 then [92; 34] else [c]) ++ escape r
  end.
Definition dis_string (s : list byte) : text := B ".string """ ++ escape s ++ [34; 10].
Definition slice (code : list byte) (off len : N) : list byte :=
  if lenN code <? off then [] else firstn (N.to_nat (N.min len (lenN code))) (skipn (N.to_nat off) code).
Definition dis_fn (m : module) (f : fent) : text :=
  B ".function " ++ (match nthN (m_strings m) (fn_name f) with Some s => cstr s | None => B "???" end)
  ++ 32 :: print_dec (fn_arity f) ++ 32 :: print_dec (fn_locals f) ++ 32 :: print_dec (fn_upv f) ++ [10]
  ++ (if (0 <? fn_len f) && (u32 (fn_off f + fn_len f) <=? lenN (m_code m))
      then disasm_function m (slice (m_code m) (fn_off f) (fn_len f)) else [])
  ++ B ".end" ++ [10; 10].
Definition disasm_module (m : module) : text :=
  flat_map dis_string (m_strings m)
  ++ (match m_strings m with [] => [] | _ => [10] end)
  ++ (if N.testbit (m_flags m) 0 then B ".entry " ++ print_dec (m_entry m) ++ [10; 10] else [])
  ++ flat_map (dis_fn m) (m_funcs m).

(* ------------------------------------------------------------------------------------------------ assembler *)
Record label := { l_name : text; l_off : N; l_fn : N }.
Record patch := { p_label : text; p_code_off : N; p_start : N; p_fn : N }.
(* a_rcode is fn_code reversed (fn_emit appends); a_size = fn_code_size *)
Record astate := { a_mod : module; a_labels : list label; a_patches : list patch;
                   a_in_fn : bool; a_cur : N; a_rcode : list byte; a_size : N }.

Definition set_mod (st : astate) (m : module) : astate :=
  {| a_mod := m; a_labels := a_labels st; a_patches := a_patches st; a_in_fn := a_in_fn st; a_cur := a_cur st;
     a_rcode := a_rcode st; a_size := a_size st |}.
Definition emit (st : astate) (bs : list byte) : astate :=
  {| a_mod := a_mod st; a_labels := a_labels st; a_patches := a_patches st; a_in_fn := a_in_fn st; a_cur := a_cur st;
     a_rcode := rev_append bs (a_rcode st); a_size := a_size st + lenN bs |}.
Definition set_patches (st : astate) (ps : list patch) : astate :=
  {| a_mod := a_mod st; a_labels := a_labels st; a_patches := ps; a_in_fn := a_in_fn st; a_cur := a_cur st;
     a_rcode := a_rcode st; a_size := a_size st |}.

Fixpoint find_label (ls : list label) (name : text) (fn : N) : option label :=
  match ls with
  | [] => None
  | l :: r => if (l_fn l =? fn) && bytes_eqb (l_name l) name then Some l else find_label r name fn end.
(* add_label: refuses when the table is full or the name is already defined in this function *)
Definition add_label (st : astate) (name : text) : option astate :=
  if max_labels <=? lenN (a_labels st) then None else
  match find_label (a_labels st) name (a_cur st) with
  | Some _ => None
  | None => Some {| a_mod := a_mod st; a_labels := a_labels st ++ [{| l_name := name; l_off := a_size st; l_fn := a_cur st |}];
                    a_patches := a_patches st; a_in_fn := a_in_fn st; a_cur := a_cur st;
                    a_rcode := a_rcode st; a_size := a_size st |}
  end.
(* add_patch refuses when the table is full (ASM_ERR_MEMORY); the patch carries the offset of the operand *)
Definition add_patch (st : astate) (name : text) (start off : N) : option astate :=
  if max_patches <=? lenN (a_patches st) then None
  else Some (set_patches st (a_patches st ++ [{| p_label := name; p_code_off := off; p_start := start; p_fn := a_cur st |}])).

(* encode_operand + fn_emit for one operand; inr = error code *)
Definition asm_operand (st : astate) (k : okind) (l : text) (start : N) : (astate * text) + N :=
  match k with
  | KU8 => match parse_unsigned 255 l with Some (v, r) => inl (emit st (le_bytes 1 v), r) | None => inr asm_err_bad_operand end
  | KU16 => match parse_unsigned 65535 l with Some (v, r) => inl (emit st (le_bytes 2 v), r) | None => inr asm_err_bad_operand end
  | KU32 => match parse_unsigned 4294967295 l with Some (v, r) => inl (emit st (le_bytes 4 v), r) | None => inr asm_err_bad_operand end
  | KI32 =>
      let l' := skip_ws l in
      let patch_offset := a_size st in
      match l' with
      | c :: _ =>
          if is_alpha_ c then
            match parse_identifier l' patch_label_size with
            | Some (name, r) =>
                match add_patch st name start patch_offset with
                | Some st1 => inl (emit st1 [0; 0; 0; 0], r)
                | None => inr asm_err_memory end
            | None => inr asm_err_bad_operand end
          else
            match parse_range (-2147483648) 2147483647 l' with
            | Some (v, r) =>
                inl (emit st (le_bytes 4 (of_signed 32 v)), r)
            | None => inr asm_err_bad_operand end
      | [] => inr asm_err_bad_operand
      end
  | KI64 => match parse_int64 l with Some (v, r) => inl (emit st (le_bytes 8 (of_signed 64 v)), r) | None => inr asm_err_bad_operand end
  | KF64 => match parse_f64 (skip_ws l) with Some (v, r) => inl (emit st (le_bytes 8 v), r) | None => inr asm_err_bad_operand end
  end.
Fixpoint asm_operands (st : astate) (ks : list okind) (l : text) (start : N) : astate + N :=
  match ks with
  | [] => inl st
  | k :: ks' => match asm_operand st k l start with
                | inl (st', r) => asm_operands st' ks' r start
                | inr e => inr e end
  end.

(* isa_opcode_by_name: the first opcode (ascending) whose mnemonic is exactly the given bytes *)
Fixpoint opcode_by_name (l : list (N * (String.string * list okind))) (name : text) : option (N * list okind) :=
  match l with
  | [] => None
  | (o, (s, ks)) :: r => if bytes_eqb (B s) name then Some (o, ks) else opcode_by_name r name end.

Definition asm_instruction (st : astate) (mnemonic rest : text) : astate + N :=
  match opcode_by_name TL mnemonic with
  | None => inr asm_err_unknown_opcode
  | Some (o, ks) => asm_operands (emit st [o]) ks rest (a_size st)
  end.

(* writing 4 bytes at an offset of the function's code buffer *)
Definition poke4 (code : list byte) (off v : N) : list byte :=
  firstn (N.to_nat off) code ++ le_bytes 4 v ++ skipn (N.to_nat off + 4) code.
Fixpoint resolve (ps : list patch) (ls : list label) (cur : N) (code : list byte) : option (list byte) :=
  match ps with
  | [] => Some code
  | p :: r =>
      if negb (p_fn p =? cur) then resolve r ls cur code else
      match find_label ls (p_label p) cur with
      | None => None
      | Some l => resolve r ls cur (poke4 code (p_code_off p) (u32 (l_off l + 4294967296 - p_start p)))
      end
  end.

Definition set_fn_code (fs : list fent) (idx off len : N) : list fent :=
  let i := N.to_nat idx in
  match nth_error fs i with
  | Some f => firstn i fs ++ {| fn_name := fn_name f; fn_arity := fn_arity f; fn_off := off; fn_len := len;
                                 fn_locals := fn_locals f; fn_upv := fn_upv f |} :: skipn (S i) fs
  | None => fs end.

Definition lbl_buf := label_name_size.
Definition directive_buf : N := 64.
Definition mnemonic_buf : N := 64.
Definition fname_buf : N := 256.
Definition err_oob : N := 99.                          (* not a C error code: the C reads past the line buffer *)

Definition or_flag (m : module) (bit : N) : module :=
  {| m_flags := N.lor (m_flags m) bit; m_entry := m_entry m; m_strings := m_strings m; m_funcs := m_funcs m; m_code := m_code m |}.

Definition do_directive (st : astate) (d p : text) : astate + N :=
  if bytes_eqb d (B "string") then
    (* the buffer is malloc'ed from the directive's own text: strlen(p) + 1 *)
    match parse_quoted_string p (lenN p + 1) with
    | inl (s, _) => inl (set_mod st (fst (add_string (a_mod st) s)))
    | inr true => inr err_oob
    | inr false => inr asm_err_syntax end
  else if bytes_eqb d (B "function") then
    if a_in_fn st then inr asm_err_syntax else
    match parse_identifier p fname_buf with
    | None => inr asm_err_syntax
    | Some (name, p1) =>
        match parse_unsigned 4294967295 p1 with None => inr asm_err_syntax | Some (ar, p2) =>
        match parse_unsigned 4294967295 p2 with None => inr asm_err_syntax | Some (lo, p3) =>
        match parse_unsigned 4294967295 p3 with None => inr asm_err_syntax | Some (up, _) =>
          let '(m1, ni) := add_string (a_mod st) name in
          let f := {| fn_name := ni; fn_arity := u16 ar; fn_off := 0; fn_len := 0; fn_locals := u16 lo; fn_upv := u16 up |} in
          inl {| a_mod := {| m_flags := m_flags m1; m_entry := m_entry m1; m_strings := m_strings m1;
                             m_funcs := m_funcs m1 ++ [f]; m_code := m_code m1 |};
                 a_labels := a_labels st; a_patches := a_patches st; a_in_fn := true; a_cur := lenN (m_funcs m1);
                 a_rcode := []; a_size := 0 |}
        end end end
    end
  else if bytes_eqb d (B "end") then
    if negb (a_in_fn st) then inr asm_err_syntax else
    match resolve (a_patches st) (a_labels st) (a_cur st) (rev (a_rcode st)) with
    | None => inr asm_err_undefined_label
    | Some code =>
        let m := a_mod st in
        inl {| a_mod := {| m_flags := m_flags m; m_entry := m_entry m; m_strings := m_strings m;
                           m_funcs := set_fn_code (m_funcs m) (a_cur st) (lenN (m_code m)) (a_size st);
                           m_code := m_code m ++ code |};
               a_labels := [];
               a_patches := filter (fun p => negb (p_fn p =? a_cur st)) (a_patches st);
               a_in_fn := false; a_cur := a_cur st; a_rcode := a_rcode st; a_size := a_size st |}
    end
  else if bytes_eqb d (B "entry") then
    match parse_unsigned 4294967295 p with
    | None => inr asm_err_syntax
    | Some (v, _) =>
        let m := a_mod st in
        inl (set_mod st {| m_flags := N.lor (m_flags m) flag_has_main; m_entry := v; m_strings := m_strings m;
                           m_funcs := m_funcs m; m_code := m_code m |})
    end
  else if bytes_eqb d (B "flag") then
    match parse_identifier p 64 with
    | None => inr asm_err_syntax
    | Some (f, _) =>
        if bytes_eqb f (B "has_main") then inl (set_mod st (or_flag (a_mod st) flag_has_main))
        else if bytes_eqb f (B "needs_extern") then inl (set_mod st (or_flag (a_mod st) flag_needs_extern))
        else if bytes_eqb f (B "debug_info") then inl (set_mod st (or_flag (a_mod st) flag_debug_info))
        else inl st
    end
  else inr asm_err_syntax.

Definition line_end (p : text) : bool :=
  match p with [] => true | c :: _ => (c =? 59) || (c =? 35) end.

(* process_line on the comment-stripped, right-trimmed line *)
Definition process_line (st : astate) (line : text) : astate + N :=
  let p := skip_ws line in
  if line_end p then inl st else
  match starts 46 p with
  | Some p1 =>
      match parse_identifier p1 directive_buf with
      | None => inr asm_err_syntax
      | Some (d, p2) => do_directive st d p2 end
  | None =>
      let instr :=
        if negb (a_in_fn st) then inr asm_err_no_function else
        match parse_identifier p mnemonic_buf with
        | None => inr asm_err_syntax
        | Some (mn, rest) => asm_instruction st mn rest end in
      match parse_identifier p lbl_buf with
      | Some (ident, p2) =>
          match starts 58 (skip_ws p2) with
          | Some p3 =>
              if negb (a_in_fn st) then inr asm_err_no_function else
              match add_label st ident with
              | None => inr asm_err_duplicate_label
              | Some st1 =>
                  let p4 := skip_ws p3 in
                  if line_end p4 then inl st1 else
                  match parse_identifier p4 mnemonic_buf with
                  | None => inr asm_err_syntax
                  | Some (mn, rest) => asm_instruction st1 mn rest end
              end
          | None => instr end
      | None => instr end
  end.

(* asm_assemble's per-line preparation: cut at the first ';' or '#' outside a quoted string, then trim blanks, tabs, CRs on the right *)
Fixpoint cut_comment (in_str : bool) (l : text) : text :=
  match l with
  | [] => []
  | c :: r =>
      if in_str then
        if c =? 92 then match r with [] => [c] | e :: r' => c :: e :: cut_comment true r' end
        else if c =? 34 then c :: cut_comment false r
        else c :: cut_comment true r
      else if c =? 34 then c :: cut_comment true r
      else if (c =? 59) || (c =? 35) then []
      else c :: cut_comment false r
  end.
Definition is_trail (c : byte) : bool := (c =? 32) || (c =? 9) || (c =? 13).
Fixpoint rtrim (l : text) : text :=
  match l with
  | [] => []
  | x :: r => match rtrim r with [] => if is_trail x then [] else [x] | r' => x :: r' end
  end.
Definition prep_line (l : text) : text := rtrim (cut_comment false l).

(* the text as the C sees it: up to the first NUL, split at '\n' (a final line without '\n' counts, an empty tail does not) *)
Fixpoint split_lines (l : text) (cur : text) : list text :=
  match l with
  | [] => match cur with [] => [] | _ => [rev cur] end
  | c :: r => if c =? 10 then rev cur :: split_lines r [] else split_lines r (c :: cur)
  end.

Inductive ares := AOk (m : module) | AErr (code line : N).

Fixpoint asm_lines (st : astate) (ls : list text) (lineno : N) : ares :=
  match ls with
  | [] => if a_in_fn st then AErr asm_err_syntax lineno else AOk (a_mod st)
  | l :: r => match process_line st (prep_line l) with
              | inl st' => asm_lines st' r (lineno + 1)
              | inr e => AErr e (lineno + 1) end
  end.

Definition empty_module : module := {| m_flags := 0; m_entry := 0; m_strings := []; m_funcs := []; m_code := [] |}.
Definition init_state : astate :=
  {| a_mod := empty_module; a_labels := []; a_patches := []; a_in_fn := false; a_cur := 0; a_rcode := []; a_size := 0 |}.
Definition asm_assemble (t : text) : ares := asm_lines init_state (split_lines (cstr t) []) 0.

(* ------------------------------------------------------------------------------------------------ well-formedness *)
(* The decidable hypothesis of the round-trip theorem (NV.Isa.AsmProofs); the harness evaluates the same function to
   attribute a failing round trip on the real tools to the conjunct it violates.  [good] says which float patterns the
   oracle prints and re-reads exactly. *)
Variable good : N -> bool.

Fixpoint decode_all (fuel : nat) (bs : list byte) (pos : N) : option (list (N * instr)) :=
  match bs with
  | [] => Some []
  | _ :: _ =>
      match fuel with O => None | S f =>
        match decode T bs with
        | None => None
        | Some (i, n) => match decode_all f (skipn n bs) (pos + N.of_nat n) with
                         | Some r => Some ((pos, i) :: r) | None => None end
        end
      end
  end.
Fixpoint f64s_ok (ks : list okind) (vs : list N) : bool :=
  match ks, vs with
  | k :: ks', v :: vs' => (if okind_eqb k KF64 then good v else true) && f64s_ok ks' vs'
  | _, _ => true end.
Definition count_i32 (ks : list okind) : N := lenN (filter (fun k => okind_eqb k KI32) ks).
Definition code_of (m : module) (f : fent) : list byte := slice (m_code m) (fn_off f) (fn_len f).
Definition on_code (c : list byte) (chk : list (N * instr) -> bool) : bool :=
  match decode_all (length c) c 0 with Some l => chk l | None => true end.

Definition code_decodes (c : list byte) : bool :=
  match decode_all (length c) c 0 with Some _ => true | None => false end.
Definition code_patches (c : list byte) : bool :=
  on_code c (fun l => fold_right (fun pi a => count_i32 (kinds_of (op (snd pi))) + a) 0 l <=? max_patches).
Definition code_f64 (c : list byte) : bool :=
  on_code c (forallb (fun pi => f64s_ok (kinds_of (op (snd pi))) (args (snd pi)))).
Definition wf_codeb (c : list byte) : bool := code_decodes c && code_patches c && code_f64 c.

Fixpoint distinct_strs (l : list (list byte)) : bool :=
  match l with [] => true | s :: r => negb (existsb (bytes_eqb s) r) && distinct_strs r end.
Definition fname_okb (s : list byte) : bool :=
  all_ident s && negb (Nat.eqb (length s) 0) && (lenN s <? fname_buf).
(* canonical layout: the functions' code ranges tile the code section in table order *)
Fixpoint layout_okb (fs : list fent) (off : N) (total : N) : bool :=
  match fs with
  | [] => off =? total
  | f :: r => (fn_off f =? off) && layout_okb r (off + fn_len f) total end.

Definition all_strings (m : module) (chk : list byte -> bool) : bool := forallb chk (m_strings m).
Definition all_codes (m : module) (chk : list byte -> bool) : bool := forallb (fun f => chk (code_of m f)) (m_funcs m).

Definition wf_str_bytes (m : module) : bool := all_strings m (forallb (fun c => c <? 256)).
Definition wf_distinct (m : module) : bool := distinct_strs (m_strings m).
Definition wf_fn_fields (m : module) : bool :=
  forallb (fun f => (fn_arity f <? 65536) && (fn_locals f <? 65536) && (fn_upv f <? 65536)) (m_funcs m).
Definition wf_fn_names (m : module) : bool :=
  forallb (fun f => match nthN (m_strings m) (fn_name f) with Some s => fname_okb s | None => false end) (m_funcs m).
Definition wf_layout (m : module) : bool := layout_okb (m_funcs m) 0 (lenN (m_code m)) && (lenN (m_code m) <? 4294967296).
Definition wf_code_bytes (m : module) : bool := forallb (fun c => c <? 256) (m_code m).
Definition wf_code_decodes (m : module) : bool := all_codes m code_decodes.
Definition wf_code_patches (m : module) : bool := all_codes m code_patches.
Definition wf_code_f64 (m : module) : bool := all_codes m code_f64.
Definition wf_entry (m : module) : bool := (m_entry m <? 4294967296).
Definition wf_conjuncts (m : module) : list bool :=
  [ wf_str_bytes m; wf_distinct m; wf_fn_fields m; wf_fn_names m;
    wf_layout m; wf_code_bytes m; wf_code_decodes m; wf_code_patches m; wf_code_f64 m; wf_entry m ].
Definition wf_moduleb (m : module) : bool := forallb (fun b => b) (wf_conjuncts m).

(* the same conjuncts, computed with one decode per function (what nvref evaluates; equality with wf_conjuncts is proved
   in NV.Isa.AsmProofs) *)
Definition code_checks (c : list byte) : list bool :=
  match decode_all (length c) c 0 with
  | None => [false; true; true]
  | Some l =>
      [ true;
        fold_right (fun pi a => count_i32 (kinds_of (op (snd pi))) + a) 0 l <=? max_patches;
        forallb (fun pi => f64s_ok (kinds_of (op (snd pi))) (args (snd pi))) l ]
  end.
Definition wf_conjuncts_fast (m : module) : list bool :=
  let reps := map (fun f => code_checks (code_of m f)) (m_funcs m) in
  let col (k : nat) := forallb (fun r => nth k r true) reps in
  [ wf_str_bytes m; wf_distinct m; wf_fn_fields m; wf_fn_names m;
    wf_layout m; wf_code_bytes m; col 0%nat; col 1%nat; col 2%nat; wf_entry m ].

End WithTable.

(* ------------------------------------------------------------------------------------------------ table checks *)
(* every mnemonic is a non-empty identifier that fits the assembler's buffer, and no two opcodes share one *)
Definition name_ok (e : N * (String.string * list okind)) : bool :=
  let n := B (fst (snd e)) in
  all_ident n && negb (Nat.eqb (length n) 0) && Nat.ltb (length n) 64 &&
  match n with c :: _ => is_alpha_ c | [] => false end.
Fixpoint distinct_names (l : list (N * (String.string * list okind))) : bool :=
  match l with
  | [] => true
  | e :: r => negb (existsb (fun e' => bytes_eqb (B (fst (snd e'))) (B (fst (snd e)))) r) && distinct_names r end.
Definition names_ok (l : list (N * (String.string * list okind))) : bool := forallb name_ok l && distinct_names l.
