(* Character-level lemmas about the assembler's lexing helpers (proofs for NV.Isa.Asm). *)
From Coq Require Import NArith ZArith List Lia Bool.
From NV Require Import Base.Bytes Isa.Codec Isa.Asm Isa.AsmDec.
Import ListNotations.
Local Open Scope N_scope.

(* ---------------------------------------------------------------- byte string equality *)
Lemma bytes_eqb_refl a : bytes_eqb a a = true.
Proof. induction a as [|x a IH]; [reflexivity|]. cbn [bytes_eqb]. rewrite N.eqb_refl, IH. reflexivity. Qed.
Lemma bytes_eqb_eq a : forall b, bytes_eqb a b = true -> a = b.
Proof.
  induction a as [|x a IH]; intros [|y b] H; try discriminate; [reflexivity|].
  cbn [bytes_eqb] in H. apply andb_true_iff in H. destruct H as [H1 H2]. apply N.eqb_eq in H1. f_equal; [exact H1|apply IH, H2].
Qed.
Lemma bytes_eqb_neq a b : a <> b -> bytes_eqb a b = false.
Proof. intros H. destruct (bytes_eqb a b) eqn:E; [exfalso; apply H, bytes_eqb_eq, E|reflexivity]. Qed.

(* ---------------------------------------------------------------- blanks and identifiers *)
Definition is_ws (c : byte) : bool := (c =? 32) || (c =? 9).
Lemma skip_ws_cons c r : is_ws c = false -> skip_ws (c :: r) = c :: r.
Proof. unfold is_ws. intros H. cbn [skip_ws]. rewrite H. reflexivity. Qed.
Lemma skip_ws_nil : skip_ws [] = [].
Proof. reflexivity. Qed.
Lemma skip_ws_sp r : skip_ws (32 :: r) = skip_ws r.
Proof. reflexivity. Qed.

Lemma ident_not_ws c : is_ident c = true -> is_ws c = false.
Proof.
  unfold is_ident, is_alpha_, is_ws. intros H.
  destruct (N.eqb_spec c 32) as [->|]; [discriminate H|]. destruct (N.eqb_spec c 9) as [->|]; [discriminate H|]. reflexivity.
Qed.

Definition stops_ident (rest : text) : Prop := match rest with [] => True | c :: _ => is_ident c = false end.
Lemma span_ident_app id : forall rest, all_ident id = true -> stops_ident rest -> span_ident (id ++ rest) = (id, rest).
Proof.
  induction id as [|c id IH]; intros rest Hid Hs.
  - destruct rest as [|c r]; [reflexivity|]. cbn [app span_ident]. simpl in Hs. rewrite Hs. reflexivity.
  - cbn [all_ident] in Hid. apply andb_true_iff in Hid. destruct Hid as [Hc Hid].
    cbn [app span_ident]. rewrite Hc, (IH rest Hid Hs). reflexivity.
Qed.

Lemma parse_identifier_app id rest sz : all_ident id = true -> id <> [] -> lenN id < sz -> stops_ident rest ->
  parse_identifier (id ++ rest) sz = Some (id, rest).
Proof.
  intros Hid Hne Hlen Hs. unfold parse_identifier.
  destruct id as [|c id']; [congruence|].
  assert (Hc : is_ident c = true) by (cbn [all_ident] in Hid; apply andb_true_iff in Hid; tauto).
  change ((c :: id') ++ rest) with (c :: (id' ++ rest)). rewrite skip_ws_cons by (apply ident_not_ws, Hc).
  change (c :: (id' ++ rest)) with ((c :: id') ++ rest). rewrite span_ident_app by assumption.
  destruct (N.leb_spec sz (lenN (c :: id'))); [lia|reflexivity].
Qed.
Lemma parse_identifier_sp l sz : parse_identifier (32 :: l) sz = parse_identifier l sz.
Proof. reflexivity. Qed.

Lemma stops_ident_sp r : stops_ident (32 :: r).
Proof. reflexivity. Qed.
Lemma stops_ident_nil : stops_ident [].
Proof. exact I. Qed.
Lemma stops_stops_ident rest : stops rest -> stops_ident rest.
Proof. intros [->|[r ->]]; [exact I|reflexivity]. Qed.

(* ---------------------------------------------------------------- comment stripping and right trim *)
Definition no59 (l : text) : Prop := ~ In 59 l /\ ~ In 35 l /\ ~ In 34 l.
Lemma no59_app a b : no59 a -> no59 b -> no59 (a ++ b).
Proof. intros [A1 [A2 A3]] [B1 [B2 B3]]. repeat split; intros H; apply in_app_or in H; tauto. Qed.
Lemma no59_cons c l : c <> 59 -> c <> 35 -> c <> 34 -> no59 l -> no59 (c :: l).
Proof. intros H1 H2 H3 [A1 [A2 A3]]. repeat split; intros [E|E]; try tauto; congruence. Qed.
Lemma no59_nil : no59 [].
Proof. repeat split; intros []. Qed.

Lemma cut_false_app p : forall r, no59 p -> cut_comment false (p ++ r) = p ++ cut_comment false r.
Proof.
  induction p as [|c p IH]; intros r H; [reflexivity|]. destruct H as [H1 [H2 H3]].
  cbn [app cut_comment].
  destruct (N.eqb_spec c 34) as [->|]; [exfalso; apply H3; left; reflexivity|].
  destruct (N.eqb_spec c 59) as [->|]; [exfalso; apply H1; left; reflexivity|].
  destruct (N.eqb_spec c 35) as [->|]; [exfalso; apply H2; left; reflexivity|]. cbn [orb]. f_equal. apply IH.
  repeat split; intros G; [apply H1|apply H2|apply H3]; right; exact G.
Qed.
Lemma cut_false_id l : no59 l -> cut_comment false l = l.
Proof. intros H. rewrite <- (app_nil_r l) at 1. rewrite cut_false_app by exact H. apply app_nil_r. Qed.
Lemma cut_false_comment l junk : no59 l -> cut_comment false (l ++ 59 :: junk) = l.
Proof. intros H. rewrite cut_false_app by exact H. cbn [cut_comment]. change (59 =? 34) with false. change ((59 =? 59) || (59 =? 35)) with true. cbn iota. apply app_nil_r. Qed.
Lemma cut_true_pair e r : cut_comment true (92 :: e :: r) = 92 :: e :: cut_comment true r.
Proof. reflexivity. Qed.
Lemma cut_true_quote r : cut_comment true (34 :: r) = 34 :: cut_comment false r.
Proof. reflexivity. Qed.
Lemma cut_true_plain c r : c <> 92 -> c <> 34 -> cut_comment true (c :: r) = c :: cut_comment true r.
Proof. intros H1 H2. cbn [cut_comment]. destruct (N.eqb_spec c 92); [contradiction|]. destruct (N.eqb_spec c 34); [contradiction|]. reflexivity. Qed.
Lemma cut_false_quote r : cut_comment false (34 :: r) = 34 :: cut_comment true r.
Proof. reflexivity. Qed.

Lemma rtrim_all_trail t : forallb is_trail t = true -> rtrim t = [].
Proof.
  induction t as [|x t IH]; intros H; [reflexivity|]. cbn [forallb] in H. apply andb_true_iff in H. destruct H as [Hx Ht].
  cbn [rtrim]. rewrite (IH Ht), Hx. reflexivity.
Qed.
Lemma rtrim_app_trail a t : forallb is_trail t = true -> rtrim (a ++ t) = rtrim a.
Proof.
  intros Ht. induction a as [|x a IH]; [apply rtrim_all_trail, Ht|]. cbn [app rtrim]. rewrite IH. reflexivity.
Qed.
Lemma rtrim_end a x : is_trail x = false -> rtrim (a ++ [x]) = a ++ [x].
Proof.
  intros Hx. induction a as [|y a IH]; cbn [app rtrim]; [rewrite Hx; reflexivity|].
  rewrite IH. destruct (a ++ [x]) eqn:E; [destruct a; discriminate|reflexivity].
Qed.
(* a text whose last character is not a blank, tab or CR *)
Definition ends_solid (l : text) : Prop := exists a x, l = a ++ [x] /\ is_trail x = false.
Lemma rtrim_solid l : ends_solid l -> rtrim l = l.
Proof. intros [a [x [-> H]]]. apply rtrim_end, H. Qed.
Lemma ends_solid_app a b : ends_solid b -> ends_solid (a ++ b).
Proof. intros [b' [x [-> H]]]. exists (a ++ b'), x. rewrite app_assoc. split; [reflexivity|exact H]. Qed.

(* a line without comment characters that ends in a solid character is left alone *)
Lemma prep_line_id l : no59 l -> (l = [] \/ ends_solid l) -> prep_line l = l.
Proof.
  intros H Hs. unfold prep_line. rewrite (cut_false_id l H).
  destruct Hs as [->|Hs]; [reflexivity|apply rtrim_solid, Hs].
Qed.
(* a `  ; ...` comment after such a line disappears together with the two blanks in front of it *)
Lemma prep_line_comment l junk : no59 l -> (l = [] \/ ends_solid l) -> prep_line (l ++ 32 :: 32 :: 59 :: junk) = l.
Proof.
  intros H Hs. unfold prep_line.
  replace (l ++ 32 :: 32 :: 59 :: junk) with ((l ++ [32; 32]) ++ 59 :: junk) by (rewrite <- app_assoc; reflexivity).
  rewrite cut_false_comment.
  2:{ apply no59_app; [exact H|]. apply no59_cons; try discriminate. apply no59_cons; try discriminate. apply no59_nil. }
  rewrite rtrim_app_trail by reflexivity.
  destruct Hs as [->|Hs]; [reflexivity|apply rtrim_solid, Hs].
Qed.

Lemma plain_no59 l : Forall (fun c => plain_char c = true) l -> no59 l.
Proof.
  intros F. rewrite Forall_forall in F. repeat split; intros H; specialize (F _ H); discriminate F.
Qed.
Lemma plain_solid l : Forall (fun c => plain_char c = true) l -> l <> [] -> ends_solid l.
Proof.
  intros F Hne. destruct (exists_last Hne) as [a [x ->]]. exists a, x. split; [reflexivity|].
  rewrite Forall_forall in F. assert (Hin : In x (a ++ [x])) by (apply in_or_app; right; left; reflexivity). specialize (F x Hin).
  unfold plain_char in F. unfold is_trail.
  destruct (x =? 0), (x =? 10), (x =? 59), (x =? 35), (x =? 32), (x =? 9), (x =? 13), (x =? 34); try discriminate F; reflexivity.
Qed.

(* ---------------------------------------------------------------- lines *)
Definition join (ls : list text) : text := flat_map (fun l => l ++ [10]) ls.
Lemma join_app a b : join (a ++ b) = join a ++ join b.
Proof. unfold join. apply flat_map_app. Qed.
Lemma join_cons l ls : join (l :: ls) = l ++ 10 :: join ls.
Proof. unfold join. cbn [flat_map]. rewrite <- app_assoc. reflexivity. Qed.

Lemma split_lines_line l : forall cur t, ~ In 10 l -> split_lines (l ++ 10 :: t) cur = (rev cur ++ l) :: split_lines t [].
Proof.
  induction l as [|c l IH]; intros cur t H.
  - cbn [app split_lines]. rewrite N.eqb_refl, app_nil_r. reflexivity.
  - cbn [app split_lines]. destruct (N.eqb_spec c 10) as [->|]; [exfalso; apply H; left; reflexivity|].
    rewrite IH by (intros G; apply H; right; exact G). cbn [rev]. rewrite <- app_assoc. reflexivity.
Qed.
Lemma split_join ls : forall t, Forall (fun l => ~ In 10 l) ls -> split_lines (join ls ++ t) [] = ls ++ split_lines t [].
Proof.
  induction ls as [|l ls IH]; intros t F; [reflexivity|]. inversion F; subst.
  rewrite join_cons, <- app_assoc. cbn [app]. rewrite split_lines_line by assumption. cbn [rev app]. f_equal. apply IH. assumption.
Qed.
Lemma split_join_all ls : Forall (fun l => ~ In 10 l) ls -> split_lines (join ls) [] = ls.
Proof. intros F. rewrite <- (app_nil_r (join ls)), split_join by exact F. cbn [split_lines]. apply app_nil_r. Qed.

Lemma cstr_id l : ~ In 0 l -> cstr l = l.
Proof.
  induction l as [|c l IH]; intros H; [reflexivity|]. cbn [cstr].
  destruct (N.eqb_spec c 0) as [->|]; [exfalso; apply H; left; reflexivity|]. f_equal. apply IH. intros G. apply H. right. exact G.
Qed.

(* ---------------------------------------------------------------- quoted strings *)
Lemma escape_cons_len c s : (length (escape s) < length (escape (c :: s)))%nat.
Proof.
  cbn [escape]. rewrite app_length. unfold byte in *.
  destruct (c =? 0); [simpl; lia|]. destruct (c =? 10); [simpl; lia|]. destruct (c =? 9); [simpl; lia|]. destruct (c =? 92); [simpl; lia|].
  destruct (c =? 34); simpl; lia.
Qed.

Lemma escape_len_ge s : lenN s <= lenN (escape s).
Proof.
  induction s as [|c s IH]; [cbn; lia|]. pose proof (escape_cons_len c s) as H. unfold lenN in *. cbn [length]. unfold byte in *. lia.
Qed.

Lemma quoted_escape s : forall fuel acc n sz rest,
  n + lenN s < sz -> (length (escape s) < fuel)%nat ->
  quoted_body fuel (escape s ++ 34 :: rest) acc n sz = inl (rev acc ++ s, rest).
Proof.
  induction s as [|c s IH]; intros fuel acc n sz rest Hsz Hf.
  - destruct fuel as [|f]; [simpl in Hf; lia|]. cbn [escape app quoted_body]. rewrite N.eqb_refl, app_nil_r. reflexivity.
  - assert (Hl : lenN (c :: s) = lenN s + 1) by (unfold lenN; cbn [length]; lia).
    rewrite Hl in Hsz.
    assert (Hn : (sz <=? n + 1) = false) by (apply N.leb_gt; lia).
    assert (Hrec : forall f' v, (length (escape s) < f')%nat ->
              quoted_body f' (escape s ++ 34 :: rest) (v :: acc) (n + 1) sz = inl (rev acc ++ v :: s, rest)).
    { intros f' v Hf'. rewrite IH by (try exact Hf'; lia). cbn [rev]. rewrite <- app_assoc. reflexivity. }
    pose proof (escape_cons_len c s) as Hlen.
    destruct fuel as [|f]; [lia|]. assert (Hf2 : (length (escape s) < f)%nat) by lia.
    cbn [escape].
    destruct (N.eqb_spec c 0) as [->|N0]; [cbn [app quoted_body]; change (92 =? 34) with false; rewrite Hn; change (92 =? 92) with true;
      cbn iota; change (48 =? 110) with false; change (48 =? 116) with false; change (48 =? 48) with true; cbn iota; apply Hrec; exact Hf2|].
    destruct (N.eqb_spec c 10) as [->|N10]; [|destruct (N.eqb_spec c 9) as [->|N9]; [|destruct (N.eqb_spec c 92) as [->|N92]; [|destruct (N.eqb_spec c 34) as [->|N34]]]].
    + cbn [app quoted_body]. change (92 =? 34) with false. rewrite Hn. change (92 =? 92) with true.
      cbn iota. change (110 =? 110) with true. cbn iota. apply Hrec. exact Hf2.
    + cbn [app quoted_body]. change (92 =? 34) with false. rewrite Hn. change (92 =? 92) with true.
      cbn iota. change (116 =? 110) with false. change (116 =? 116) with true. cbn iota. apply Hrec. exact Hf2.
    + cbn [app quoted_body]. change (92 =? 34) with false. rewrite Hn. change (92 =? 92) with true.
      cbn iota. change (92 =? 110) with false. change (92 =? 116) with false. change (92 =? 48) with false. cbn iota.
      apply Hrec. exact Hf2.
    + cbn [app quoted_body]. change (92 =? 34) with false. rewrite Hn. change (92 =? 92) with true.
      cbn iota. change (34 =? 110) with false. change (34 =? 116) with false. change (34 =? 48) with false. cbn iota.
      apply Hrec. exact Hf2.
    + cbn [app quoted_body].
      destruct (N.eqb_spec c 34); [congruence|]. rewrite Hn. destruct (N.eqb_spec c 92); [congruence|].
      apply Hrec. exact Hf2.
Qed.

Lemma escape_clean s : ~ In 10 (escape s) /\ ~ In 0 (escape s).
Proof.
  induction s as [|x s [I1 I2]]; [split; intros []|]. cbn [escape].
  assert (G : forall c, (c = 10 \/ c = 0) ->
    ~ In c (if x =? 0 then [92; 48] else if x =? 10 then [92; 110] else if x =? 9 then [92; 116] else if x =? 92 then [92; 92]
            else if x =? 34 then [92; 34] else [x])).
  { intros c Hc H. destruct (N.eqb_spec x 0); [destruct H as [H|[H|[]]]; destruct Hc; subst; discriminate|].
    destruct (N.eqb_spec x 10); [destruct H as [H|[H|[]]]; destruct Hc; subst; discriminate|].
    destruct (x =? 9); [destruct H as [H|[H|[]]]; destruct Hc; subst; discriminate|].
    destruct (x =? 92); [destruct H as [H|[H|[]]]; destruct Hc; subst; discriminate|].
    destruct (x =? 34); [destruct H as [H|[H|[]]]; destruct Hc; subst; discriminate|].
    destruct H as [H|[]]. destruct Hc; subst; congruence. }
  split; intros H; apply in_app_or in H; destruct H as [H|H]; try tauto; [apply (G 10)|apply (G 0)]; tauto.
Qed.

(* the comment scan leaves an escaped string alone and leaves string mode at its closing quote *)
Lemma cut_true_escape s : forall rest, cut_comment true (escape s ++ 34 :: rest) = escape s ++ 34 :: cut_comment false rest.
Proof.
  induction s as [|c s IH]; intros rest; [apply cut_true_quote|]. cbn [escape].
  destruct (N.eqb_spec c 0); [cbn [app]; rewrite cut_true_pair, IH; reflexivity|].
  destruct (N.eqb_spec c 10); [cbn [app]; rewrite cut_true_pair, IH; reflexivity|].
  destruct (N.eqb_spec c 9); [cbn [app]; rewrite cut_true_pair, IH; reflexivity|].
  destruct (N.eqb_spec c 92); [cbn [app]; rewrite cut_true_pair, IH; reflexivity|].
  destruct (N.eqb_spec c 34); [cbn [app]; rewrite cut_true_pair, IH; reflexivity|].
  cbn [app]. rewrite cut_true_plain by assumption. rewrite IH. reflexivity.
Qed.
