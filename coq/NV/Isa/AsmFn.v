(* One function's code through disasm_function and back through the assembler (proofs for NV.Isa.Asm). *)
From Coq Require Import NArith ZArith List Lia Bool.
From Coq Require String.
From NV Require Import Base.Bytes Isa.Codec Isa.CodecProofs Isa.Asm Isa.AsmDec Isa.AsmLex Isa.AsmLine gen.AsmConsts.
Import ListNotations.
Local Open Scope N_scope.

Section Fn.
Variable TL : list (N * (String.string * list okind)).
Variable print_f64 : N -> text.
Variable parse_f64 : text -> option (N * text).
Variable good : N -> bool.
Hypothesis Hnames : names_ok TL = true.
Hypothesis Hcmt : comment_ops_ok TL = true.
Hypothesis Horacle : forall v, good v = true -> f64_text_ok print_f64 parse_f64 v.

Let T : table_t := table_of TL.
Notation kinds_of := (kinds_of TL).
Notation name_bytes := (name_bytes TL).
Notation decode_all := (decode_all TL).
Notation dis_body := (dis_body TL print_f64).
Notation fmt_operands := (fmt_operands print_f64).
Notation process_line := (process_line TL parse_f64).
Notation instr_line := (instr_line TL print_f64).
Notation args_text := (args_text print_f64).
Notation args_ok := (args_ok good).

(* ---------------------------------------------------------------- the decoded form of a function's code *)
Fixpoint enc_of (ks : list okind) (vs : list N) : list byte :=
  match ks, vs with k :: ks', v :: vs' => le_bytes (ksize k) v ++ enc_of ks' vs' | _, _ => [] end.
Definition ienc (i : instr) : list byte := op i :: enc_of (kinds_of (op i)) (args i).

Lemma enc_args_enc_of ks : forall vs r, enc_args ks vs = Some r -> r = enc_of ks vs.
Proof.
  induction ks as [|k ks IH]; intros [|v vs] r H; cbn [enc_args] in H; try discriminate.
  - inversion H. reflexivity.
  - destruct (enc_args ks vs) as [r'|] eqn:E; [|discriminate]. inversion H; subst. cbn [enc_of]. rewrite (IH vs r' E). reflexivity.
Qed.

Inductive chain : N -> list (N * instr) -> N -> Prop :=
| chain_nil p : chain p [] p
| chain_cons p i D e : chain (p + lenN (ienc i)) D e -> chain p ((p, i) :: D) e.

Definition instr_wf (pi : N * instr) : Prop := exists ks, T (op (snd pi)) = Some ks /\ wf_args ks (args (snd pi)).

Lemma decode_all_nil fuel pos : decode_all fuel [] pos = Some [].
Proof. destruct fuel; reflexivity. Qed.
Lemma decode_all_cons fuel b bs pos : decode_all (S fuel) (b :: bs) pos =
  match decode T (b :: bs) with
  | None => None
  | Some (i, n) => match decode_all fuel (skipn n (b :: bs)) (pos + N.of_nat n) with
                   | Some r => Some ((pos, i) :: r) | None => None end
  end.
Proof. reflexivity. Qed.

Lemma decode_step bs i n : bytes_ok bs -> decode T bs = Some (i, n) ->
  exists ks, T (op i) = Some ks /\ wf_args ks (args i) /\ bs = ienc i ++ skipn n bs /\ length (ienc i) = n /\ (0 < n)%nat.
Proof.
  intros Hok Hd. destruct (encode_decode T bs i n Hok Hd) as [He [[_ [ks [HT Hw]]] Hn]].
  exists ks. split; [exact HT|]. split; [exact Hw|].
  unfold encode in He. rewrite HT in He. destruct (enc_args ks (args i)) as [r|] eqn:Er; [|discriminate].
  inversion He as [E1]. apply enc_args_enc_of in Er. subst r.
  assert (Hi : ienc i = firstn n bs).
  { unfold ienc, Asm.kinds_of. fold T. rewrite HT. exact E1. }
  split; [rewrite Hi; symmetry; apply firstn_skipn|].
  split; [rewrite Hi, firstn_length; lia|].
  unfold decode in Hd. destruct bs as [|o r]; [discriminate|]. destruct (T o); [|discriminate].
  destruct (dec_args l r) as [[vs k]|]; [|discriminate]. inversion Hd. lia.
Qed.

Lemma decode_all_spec fuel : forall bs pos D, bytes_ok bs -> decode_all fuel bs pos = Some D ->
  bs = flat_map (fun pi => ienc (snd pi)) D /\ chain pos D (pos + lenN bs) /\ Forall instr_wf D.
Proof.
  induction fuel as [|fuel IH]; intros bs pos D Hok H.
  - destruct bs as [|b bs]; [|discriminate]. inversion H; subst. cbn. rewrite N.add_0_r. repeat split; constructor.
  - destruct bs as [|b bs]; [inversion H; subst; cbn; rewrite N.add_0_r; repeat split; constructor|].
    rewrite decode_all_cons in H. destruct (decode T (b :: bs)) as [[i n]|] eqn:Ed; [|discriminate].
    destruct (Asm.decode_all TL fuel (skipn n (b :: bs)) (pos + N.of_nat n)) as [r|] eqn:Er; [|discriminate].
    inversion H; subst D; clear H.
    destruct (decode_step _ _ _ Hok Ed) as [ks [HT [Hw [Hbs [Hlen Hpos]]]]].
    destruct (IH _ _ _ (bytes_ok_skipn _ _ Hok) Er) as [E1 [E2 E3]].
    split; [|split].
    + cbn [flat_map snd]. rewrite <- E1. exact Hbs.
    + constructor. replace (pos + lenN (ienc i)) with (pos + N.of_nat n) by (unfold lenN; rewrite Hlen; reflexivity).
      replace (pos + lenN (b :: bs)) with (pos + N.of_nat n + lenN (skipn n (b :: bs))); [exact E2|].
      rewrite Hbs at 2. rewrite lenN_app. unfold lenN at 2. rewrite Hlen. lia.
    + constructor; [exists ks; split; assumption|exact E3].
Qed.

Lemma decode_all_head fuel bs pos p i D : decode_all fuel bs pos = Some ((p, i) :: D) ->
  exists b r f n, bs = b :: r /\ fuel = S f /\ p = pos /\ decode T bs = Some (i, n) /\
                  decode_all f (skipn n bs) (pos + N.of_nat n) = Some D.
Proof.
  intros H. destruct bs as [|b r]; [rewrite decode_all_nil in H; discriminate|].
  destruct fuel as [|f]; [discriminate|]. rewrite decode_all_cons in H.
  destruct (decode T (b :: r)) as [[i' n]|] eqn:Ed; [|discriminate].
  destruct (Asm.decode_all TL f (skipn n (b :: r)) (pos + N.of_nat n)) as [D'|] eqn:Er; [|discriminate].
  inversion H; subst. exists b, r, f, n. repeat split; try reflexivity. exact Er.
Qed.
Lemma decode_all_empty fuel bs pos : decode_all fuel bs pos = Some [] -> bs = [].
Proof.
  intros H. destruct bs as [|b r]; [reflexivity|]. destruct fuel as [|f]; [discriminate|]. rewrite decode_all_cons in H.
  destruct (decode T (b :: r)) as [[i' n]|]; [|discriminate].
  destruct (Asm.decode_all TL f (skipn n (b :: r)) (pos + N.of_nat n)); discriminate.
Qed.

(* ---------------------------------------------------------------- what disasm_function prints, as lines *)
Definition lbl_lines (L : list N) (p : N) : list text :=
  match index_of p L 0 with Some i => [label_name i ++ [58]] | None => [] end.
Definition printed_instr (m : module) (L : list N) (p : N) (i : instr) : text :=
  32 :: 32 :: name_bytes (op i) ++ fmt_operands m L p (op i) 0 (kinds_of (op i)) (args i).
Definition printed_lines (m : module) (L : list N) (D : list (N * instr)) (e : N) : list text :=
  flat_map (fun pi => lbl_lines L (fst pi) ++ [printed_instr m L (fst pi) (snd pi)]) D ++ lbl_lines L e.

Lemma label_line_join L p : label_line L p = join (lbl_lines L p).
Proof.
  unfold label_line, lbl_lines. destruct (index_of p L 0); [|reflexivity].
  rewrite join_cons. cbn [join flat_map]. rewrite <- app_assoc. reflexivity.
Qed.

Lemma dis_body_lines m L : forall D fuel2 fuel bs pos, decode_all fuel bs pos = Some D -> bytes_ok bs ->
  (length bs < fuel2)%nat -> dis_body fuel2 m L bs pos = join (printed_lines m L D (pos + lenN bs)).
Proof.
  induction D as [|[p i] D IH]; intros fuel2 fuel bs pos Hd Hok Hf.
  - apply decode_all_empty in Hd. subst bs. destruct fuel2 as [|f2]; [simpl in Hf; lia|].
    cbn [Asm.dis_body]. unfold printed_lines. cbn [flat_map app]. rewrite N.add_0_r. apply label_line_join.
  - destruct (decode_all_head _ _ _ _ _ _ Hd) as [b [r [f [n [Eb [Ef [Ep [Edec Hrest]]]]]]]]. subst bs fuel p.
    destruct fuel2 as [|f2]; [simpl in Hf; lia|].
    destruct (decode_step _ _ _ Hok Edec) as [ks [HT [Hw [Hbs [Hlen Hpos]]]]].
    cbn [Asm.dis_body]. fold T. rewrite Edec.
    rewrite (IH f2 f (skipn n (b :: r)) (pos + N.of_nat n) Hrest (bytes_ok_skipn _ _ Hok)).
    2:{ rewrite skipn_length. cbn [length] in *. lia. }
    unfold printed_lines. cbn [flat_map fst snd]. rewrite <- !app_assoc, !join_app, label_line_join.
    f_equal. cbn [app]. rewrite join_cons. unfold printed_instr.
    replace (pos + N.of_nat n + lenN (skipn n (b :: r))) with (pos + lenN (b :: r)).
    2:{ rewrite Hbs at 1. rewrite lenN_app. unfold lenN at 1. rewrite Hlen. lia. }
    rewrite <- !app_assoc. cbn [app]. rewrite <- !app_assoc. reflexivity.
Qed.

End Fn.
