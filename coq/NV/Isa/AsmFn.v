(* One function's code through disasm_function and back through the assembler (proofs for NV.Isa.Asm). *)
From Coq Require Import NArith ZArith List Lia Bool.
From Coq Require String.
From NV Require Import Base.Bytes Isa.Codec Isa.CodecProofs Isa.Asm Isa.AsmDec Isa.AsmLex Isa.AsmLine gen.AsmConsts.
Import ListNotations.
Local Open Scope N_scope.

Section Fn.
Variable TL : list (N * (String.string * list okind)).
Variable print_f64 : N -> text.
Variable parse_f64 : text -> option (N * text).
Variable good : N -> bool.
Hypothesis Hnames : names_ok TL = true.
Hypothesis Hcmt : comment_ops_ok TL = true.
Hypothesis Horacle : forall v, good v = true -> f64_text_ok print_f64 parse_f64 v.

Set Default Proof Using "All".
Local Notation "'LL' f" := (f TL print_f64 parse_f64 good Hnames Hcmt Horacle) (at level 10, f at level 9).

Let T : table_t := table_of TL.
Notation kinds_of := (kinds_of TL).
Notation name_bytes := (name_bytes TL).
Notation decode_all := (decode_all TL).
Notation dis_body := (dis_body TL print_f64).
Notation fmt_operands := (fmt_operands print_f64).
Notation process_line := (process_line TL parse_f64).
Notation instr_line := (instr_line TL print_f64).
Notation args_text := (args_text print_f64).
Notation args_ok := (args_ok good).

(* ---------------------------------------------------------------- the decoded form of a function's code *)
Fixpoint enc_of (ks : list okind) (vs : list N) : list byte :=
  match ks, vs with k :: ks', v :: vs' => le_bytes (ksize k) v ++ enc_of ks' vs' | _, _ => [] end.
Definition ienc (i : instr) : list byte := op i :: enc_of (kinds_of (op i)) (args i).

Lemma enc_args_enc_of ks : forall vs r, enc_args ks vs = Some r -> r = enc_of ks vs.
Proof.
  induction ks as [|k ks IH]; intros [|v vs] r H; cbn [enc_args] in H; try discriminate.
  - inversion H. reflexivity.
  - destruct (enc_args ks vs) as [r'|] eqn:E; [|discriminate]. inversion H; subst. cbn [enc_of]. rewrite (IH vs r' E). reflexivity.
Qed.

Inductive chain : N -> list (N * instr) -> N -> Prop :=
| chain_nil p : chain p [] p
| chain_cons p i D e : chain (p + lenN (ienc i)) D e -> chain p ((p, i) :: D) e.

Definition instr_wf (pi : N * instr) : Prop := exists ks, T (op (snd pi)) = Some ks /\ wf_args ks (args (snd pi)).

Lemma decode_all_nil fuel pos : decode_all fuel [] pos = Some [].
Proof. destruct fuel; reflexivity. Qed.
Lemma decode_all_cons fuel b bs pos : decode_all (S fuel) (b :: bs) pos =
  match decode T (b :: bs) with
  | None => None
  | Some (i, n) => match decode_all fuel (skipn n (b :: bs)) (pos + N.of_nat n) with
                   | Some r => Some ((pos, i) :: r) | None => None end
  end.
Proof. reflexivity. Qed.

Lemma decode_step bs i n : bytes_ok bs -> decode T bs = Some (i, n) ->
  exists ks, T (op i) = Some ks /\ wf_args ks (args i) /\ bs = ienc i ++ skipn n bs /\ length (ienc i) = n /\ (0 < n)%nat.
Proof.
  intros Hok Hd. destruct (encode_decode T bs i n Hok Hd) as [He [[_ [ks [HT Hw]]] Hn]].
  exists ks. split; [exact HT|]. split; [exact Hw|].
  unfold encode in He. rewrite HT in He. destruct (enc_args ks (args i)) as [r|] eqn:Er; [|discriminate].
  inversion He as [E1]. apply enc_args_enc_of in Er. subst r.
  assert (Hi : ienc i = firstn n bs).
  { unfold ienc, Asm.kinds_of. fold T. rewrite HT. exact E1. }
  split; [rewrite Hi; symmetry; apply firstn_skipn|].
  split; [rewrite Hi, firstn_length; lia|].
  unfold decode in Hd. destruct bs as [|o r]; [discriminate|]. destruct (T o); [|discriminate].
  destruct (dec_args l r) as [[vs k]|]; [|discriminate]. inversion Hd. lia.
Qed.

Lemma decode_all_spec fuel : forall bs pos D, bytes_ok bs -> decode_all fuel bs pos = Some D ->
  bs = flat_map (fun pi => ienc (snd pi)) D /\ chain pos D (pos + lenN bs) /\ Forall instr_wf D.
Proof.
  induction fuel as [|fuel IH]; intros bs pos D Hok H.
  - destruct bs as [|b bs]; [|discriminate]. inversion H; subst. cbn. rewrite N.add_0_r. repeat split; constructor.
  - destruct bs as [|b bs]; [inversion H; subst; cbn; rewrite N.add_0_r; repeat split; constructor|].
    rewrite decode_all_cons in H. destruct (decode T (b :: bs)) as [[i n]|] eqn:Ed; [|discriminate].
    destruct (Asm.decode_all TL fuel (skipn n (b :: bs)) (pos + N.of_nat n)) as [r|] eqn:Er; [|discriminate].
    inversion H; subst D; clear H.
    destruct (decode_step _ _ _ Hok Ed) as [ks [HT [Hw [Hbs [Hlen Hpos]]]]].
    destruct (IH _ _ _ (bytes_ok_skipn _ _ Hok) Er) as [E1 [E2 E3]].
    split; [|split].
    + cbn [flat_map snd]. rewrite <- E1. exact Hbs.
    + constructor. replace (pos + lenN (ienc i)) with (pos + N.of_nat n) by (unfold lenN; rewrite Hlen; reflexivity).
      replace (pos + lenN (b :: bs)) with (pos + N.of_nat n + lenN (skipn n (b :: bs))); [exact E2|].
      rewrite Hbs at 2. rewrite lenN_app. unfold lenN at 2. rewrite Hlen. lia.
    + constructor; [exists ks; split; assumption|exact E3].
Qed.

Lemma decode_all_head fuel bs pos p i D : decode_all fuel bs pos = Some ((p, i) :: D) ->
  exists b r f n, bs = b :: r /\ fuel = S f /\ p = pos /\ decode T bs = Some (i, n) /\
                  decode_all f (skipn n bs) (pos + N.of_nat n) = Some D.
Proof.
  intros H. destruct bs as [|b r]; [rewrite decode_all_nil in H; discriminate|].
  destruct fuel as [|f]; [discriminate|]. rewrite decode_all_cons in H.
  destruct (decode T (b :: r)) as [[i' n]|] eqn:Ed; [|discriminate].
  destruct (Asm.decode_all TL f (skipn n (b :: r)) (pos + N.of_nat n)) as [D'|] eqn:Er; [|discriminate].
  inversion H; subst. exists b, r, f, n. repeat split; try reflexivity. exact Er.
Qed.
Lemma decode_all_empty fuel bs pos : decode_all fuel bs pos = Some [] -> bs = [].
Proof.
  intros H. destruct bs as [|b r]; [reflexivity|]. destruct fuel as [|f]; [discriminate|]. rewrite decode_all_cons in H.
  destruct (decode T (b :: r)) as [[i' n]|]; [|discriminate].
  destruct (Asm.decode_all TL f (skipn n (b :: r)) (pos + N.of_nat n)); discriminate.
Qed.

(* ---------------------------------------------------------------- what disasm_function prints, as lines *)
Definition lbl_lines (L : list N) (p : N) : list text :=
  match index_of p L 0 with Some i => [label_name i ++ [58]] | None => [] end.
Definition printed_instr (m : module) (L : list N) (p : N) (i : instr) : text :=
  32 :: 32 :: name_bytes (op i) ++ fmt_operands m L p (op i) 0 (kinds_of (op i)) (args i).
Definition printed_lines (m : module) (L : list N) (D : list (N * instr)) (e : N) : list text :=
  flat_map (fun pi => lbl_lines L (fst pi) ++ [printed_instr m L (fst pi) (snd pi)]) D ++ lbl_lines L e.

Lemma label_line_join L p : label_line L p = join (lbl_lines L p).
Proof.
  unfold label_line, lbl_lines. destruct (index_of p L 0); [|reflexivity].
  rewrite join_cons. cbn [join flat_map]. rewrite <- app_assoc. reflexivity.
Qed.

Lemma dis_body_lines m L : forall D fuel2 fuel bs pos, decode_all fuel bs pos = Some D -> bytes_ok bs ->
  (length bs < fuel2)%nat -> dis_body fuel2 m L bs pos = join (printed_lines m L D (pos + lenN bs)).
Proof.
  induction D as [|[p i] D IH]; intros fuel2 fuel bs pos Hd Hok Hf.
  - apply decode_all_empty in Hd. subst bs. destruct fuel2 as [|f2]; [simpl in Hf; lia|].
    cbn [Asm.dis_body]. unfold printed_lines. cbn [flat_map app]. rewrite N.add_0_r. apply label_line_join.
  - destruct (decode_all_head _ _ _ _ _ _ Hd) as [b [r [f [n [Eb [Ef [Ep [Edec Hrest]]]]]]]]. subst bs fuel p.
    destruct fuel2 as [|f2]; [simpl in Hf; lia|].
    destruct (decode_step _ _ _ Hok Edec) as [ks [HT [Hw [Hbs [Hlen Hpos]]]]].
    cbn [Asm.dis_body]. fold T. rewrite Edec.
    rewrite (IH f2 f (skipn n (b :: r)) (pos + N.of_nat n) Hrest (bytes_ok_skipn _ _ Hok)).
    2:{ rewrite skipn_length. cbn [length] in *. lia. }
    unfold printed_lines. cbn [flat_map fst snd]. rewrite <- !app_assoc, !join_app, label_line_join.
    f_equal. cbn [app]. rewrite join_cons. unfold printed_instr.
    replace (pos + N.of_nat n + lenN (skipn n (b :: r))) with (pos + lenN (b :: r)).
    2:{ rewrite Hbs at 1. rewrite lenN_app. unfold lenN at 1. rewrite Hlen. lia. }
    rewrite <- !app_assoc. cbn [app]. rewrite <- !app_assoc. reflexivity.
Qed.

(* ---------------------------------------------------------------- running the assembler over lines *)
Fixpoint run (st : astate) (ls : list text) : astate + N :=
  match ls with
  | [] => inl st
  | l :: r => match process_line st (prep_line l) with inl st' => run st' r | inr e => inr e end
  end.
Lemma run_app a : forall st b, run st (a ++ b) = match run st a with inl st' => run st' b | inr e => inr e end.
Proof.
  induction a as [|l a IH]; intros st b; [reflexivity|]. cbn [app run].
  destruct (process_line st (prep_line l)); [apply IH|reflexivity].
Qed.
Lemma asm_lines_run ls : forall st st' n, run st ls = inl st' ->
  asm_lines TL parse_f64 st ls n = if a_in_fn st' then AErr asm_err_syntax (n + lenN ls) else AOk (a_mod st').
Proof.
  induction ls as [|l ls IH]; intros st st' n H; cbn [run Asm.asm_lines] in *.
  - inversion H; subst. rewrite lenN_nil, N.add_0_r. reflexivity.
  - destruct (process_line st (prep_line l)) as [st1|e]; [|discriminate].
    rewrite (IH st1 st' (n + 1) H), lenN_cons. replace (n + 1 + lenN ls) with (n + (1 + lenN ls)) by lia. reflexivity.
Qed.

(* ---------------------------------------------------------------- the state the assembler reaches *)
Definition maybe_label (L : list N) (st : astate) (q : N) : astate :=
  match index_of q L 0 with Some idx => with_label st idx | None => st end.
Definition step_instr (L : list N) (st : astate) (p : N) (i : instr) : astate :=
  upd (maybe_label L st p) (op i :: zenc L p (kinds_of (op i)) (args i))
      (mk_patches L (a_cur st) p (p + 1) (kinds_of (op i)) (args i)).
Fixpoint sim (L : list N) (st : astate) (D : list (N * instr)) : astate :=
  match D with [] => st | (p, i) :: D' => sim L (step_instr L st p i) D' end.

Definition instr_ok (L : list N) (pi : N * instr) : Prop :=
  exists ks, T (op (snd pi)) = Some ks /\ args_ok L (fst pi) ks (args (snd pi)).
Definition total_i32 (D : list (N * instr)) : N :=
  fold_right (fun pi a => count_i32 (kinds_of (op (snd pi))) + a) 0 D.
Definition lab_inv (L : list N) (cur : N) (st : astate) (p : N) : Prop :=
  forall l, In l (a_labels st) -> l_fn l = cur ->
  exists idx q, l_name l = label_name idx /\ index_of q L 0 = Some idx /\ q < p /\ l_off l = q.

Lemma index_of_mem t : forall L i j, index_of t L i = Some j -> mem_N t L = true.
Proof.
  induction L as [|y L IH]; intros i j H; [discriminate|]. cbn [index_of mem_N] in *.
  destruct (t =? y); [reflexivity|]. eapply IH, H.
Qed.
Lemma index_of_none_mem t : forall L i, index_of t L i = None -> mem_N t L = false.
Proof.
  induction L as [|y L IH]; intros i H; [reflexivity|]. cbn [index_of mem_N] in *.
  destruct (t =? y); [discriminate|]. eapply IH, H.
Qed.
Lemma index_of_inj L : forall a b i j, index_of a L i = Some j -> index_of b L i = Some j -> a = b.
Proof.
  induction L as [|y L IH]; intros a b i j Ha Hb; [discriminate|]. cbn [index_of] in *.
  destruct (N.eqb_spec a y) as [->|Na], (N.eqb_spec b y) as [->|Nb]; try reflexivity.
  - inversion Ha; subst. apply index_of_ge in Hb. lia.
  - inversion Hb; subst. apply index_of_ge in Ha. lia.
  - eapply IH; eassumption.
Qed.

Lemma find_label_none ls name fn : (forall l, In l ls -> l_fn l = fn -> l_name l <> name) -> find_label ls name fn = None.
Proof.
  induction ls as [|l ls IH]; intros H; [reflexivity|]. cbn [find_label].
  destruct (N.eqb_spec (l_fn l) fn) as [E|E].
  - rewrite bytes_eqb_neq by (apply H; [left; reflexivity|exact E]). cbn [andb]. apply IH. intros l' Hl'. apply H. right. exact Hl'.
  - cbn [andb]. apply IH. intros l' Hl'. apply H. right. exact Hl'.
Qed.

Lemma zenc_len L p ks : forall vs, length vs = length ks -> lenN (zenc L p ks vs) = lenN (enc_of ks vs).
Proof.
  induction ks as [|k ks IH]; intros [|v vs] H; cbn [length] in H; try discriminate; [reflexivity|].
  cbn [zenc enc_of]. rewrite !lenN_app, zenc1_len, IH by lia. unfold lenN at 2. rewrite le_bytes_length. reflexivity.
Qed.
Lemma mk_patches_len L cur start ks : forall vs off, length vs = length ks -> lenN (mk_patches L cur start off ks vs) <= count_i32 ks.
Proof.
  induction ks as [|k ks IH]; intros [|v vs] off H; cbn [length] in H; try discriminate.
  cbn [mk_patches]. rewrite lenN_app, count_i32_cons. pose proof (patch1_len L cur start off k v).
  assert (Hl : length vs = length ks) by lia. specialize (IH vs (off + N.of_nat (ksize k)) Hl). lia.
Qed.
Lemma args_ok_length L p ks : forall vs, args_ok L p ks vs -> length vs = length ks.
Proof.
  induction ks as [|k ks IH]; intros [|v vs] H; cbn [AsmLine.args_ok] in H; try contradiction; [reflexivity|].
  cbn [length]. f_equal. apply IH. tauto.
Qed.

(* the label step, shared by the instruction positions and the end position *)
Lemma run_label L cur st q : lenN L <= max_disasm_labels ->
  a_in_fn st = true -> a_cur st = cur -> a_size st = q -> lab_inv L cur st q ->
  lenN (a_labels st) + (if mem_N q L then 1 else 0) <= max_labels ->
  run st (lbl_lines L q) = inl (maybe_label L st q).
Proof.
  intros HL Hin Hcur Hsz Hinv Hb. unfold lbl_lines, maybe_label.
  destruct (index_of q L 0) as [idx|] eqn:Ei; [|reflexivity].
  rewrite (index_of_mem _ _ _ _ Ei) in Hb.
  cbn [run]. rewrite prep_line_id.
  2:{ apply plain_no59. apply Forall_app. split; [apply all_ident_plain, label_name_ident|repeat constructor]. }
  2:{ right. exists (label_name idx), 58. split; reflexivity. }
  rewrite (LL process_label); [reflexivity|exact Hin| | |].
  - apply index_of_bound in Ei. unfold max_disasm_labels in HL. lia.
  - lia.
  - apply find_label_none. intros l Hl Hfn Hname. rewrite Hcur in Hfn.
    destruct (Hinv l Hl Hfn) as [idx' [q' [E1 [E2 [E3 _]]]]]. rewrite E1 in Hname. apply label_name_inj in Hname. subst idx'.
    pose proof (index_of_inj L _ _ _ _ E2 Ei). lia.
Qed.

Lemma lab_inv_label L cur st q q' : a_cur st = cur -> a_size st = q -> q < q' -> lab_inv L cur st q -> lab_inv L cur (maybe_label L st q) q'.
Proof.
  intros Hcur Hsz Hlt Hinv l Hl Hfn. unfold maybe_label in Hl. destruct (index_of q L 0) as [idx|] eqn:Ei.
  - unfold with_label in Hl. cbn [a_labels] in Hl. apply in_app_or in Hl. destruct Hl as [Hl|[<-|[]]].
    + destruct (Hinv l Hl Hfn) as [i' [q0 [E1 [E2 [E3 E4]]]]]. exists i', q0. repeat split; try assumption. lia.
    + exists idx, q. cbn [l_name l_off]. repeat split; try assumption.
  - destruct (Hinv l Hl Hfn) as [i' [q0 [E1 [E2 [E3 E4]]]]]. exists i', q0. repeat split; try assumption. lia.
Qed.

Lemma maybe_label_fields L st q :
  a_in_fn (maybe_label L st q) = a_in_fn st /\ a_cur (maybe_label L st q) = a_cur st /\ a_size (maybe_label L st q) = a_size st /\
  a_patches (maybe_label L st q) = a_patches st /\ a_mod (maybe_label L st q) = a_mod st /\ a_rcode (maybe_label L st q) = a_rcode st /\
  lenN (a_labels (maybe_label L st q)) = lenN (a_labels st) + (if mem_N q L then 1 else 0).
Proof.
  unfold maybe_label. destruct (index_of q L 0) eqn:E.
  - rewrite (index_of_mem _ _ _ _ E). unfold with_label. cbn. rewrite lenN_app. repeat split.
  - rewrite (index_of_none_mem _ _ _ E). rewrite N.add_0_r. repeat split.
Qed.

Lemma ienc_len i ks : T (op i) = Some ks -> length (args i) = length ks ->
  forall L p, lenN (ienc i) = 1 + lenN (zenc L p ks (args i)).
Proof. intros HT Hl L p. unfold ienc. rewrite ((LL kinds_of_T) _ _ HT), lenN_cons, zenc_len by exact Hl. reflexivity. Qed.

Lemma run_body m L cur : lenN L <= max_disasm_labels -> forall D st p e,
  chain p D e -> a_in_fn st = true -> a_cur st = cur -> a_size st = p ->
  Forall (instr_ok L) D -> lab_inv L cur st p ->
  lenN (a_labels st) + lenN (filter (fun q => mem_N q L) (map fst D ++ [e])) <= max_labels ->
  lenN (a_patches st) + total_i32 D <= max_patches ->
  run st (printed_lines m L D e) = inl (maybe_label L (sim L st D) e).
Proof.
  intros HL. induction D as [|[p0 i] D IH]; intros st p e Hch Hin Hcur Hsz Hok Hinv Hlab Hpat.
  - inversion Hch; subst. unfold printed_lines. cbn [flat_map app sim].
    apply (run_label L (a_cur st)); try assumption; try reflexivity.
    cbn [map app filter fst] in Hlab. destruct (mem_N (a_size st) L); unfold lenN in *; cbn [length] in *. all: lia.
  - inversion Hch as [|? ? ? ? Hch']; subst. inversion Hok as [|? ? [ks [HT Haok]] Hok']; subst. cbn [fst snd] in *.
    unfold printed_lines. cbn [flat_map fst snd]. rewrite <- !app_assoc, run_app.
    destruct (maybe_label_fields L st (a_size st)) as [F1 [F2 [F3 [F4 [F5 [F6 F7]]]]]].
    assert (Hlab1 : lenN (a_labels st) + (if mem_N (a_size st) L then 1 else 0) <= max_labels).
    { cbn [map app filter fst] in Hlab. destruct (mem_N (a_size st) L); unfold lenN in *; cbn [length] in *. all: lia. }
    rewrite (run_label L (a_cur st)); try assumption; try reflexivity.
    cbn [app run]. unfold printed_instr. rewrite ((LL kinds_of_T) _ _ HT).
    destruct ((LL instr_printed) m L (a_size st) i ks HT Haok) as [junk [Ej [_ Ep]]].
    rewrite Ej, Ep.
    set (st1 := maybe_label L st (a_size st)) in *.
    replace (instr_line L (a_size st) i) with (instr_line L (a_size st1) i) by (rewrite F3; reflexivity).
    assert (Hin1 : a_in_fn st1 = true) by (rewrite F1; exact Hin).
    assert (Haok1 : args_ok L (a_size st1) ks (args i)) by (rewrite F3; exact Haok).
    assert (Hp1 : lenN (a_patches st1) + count_i32 ks <= max_patches).
    { rewrite F4. cbn [total_i32 fold_right snd] in Hpat. rewrite ((LL kinds_of_T) _ _ HT) in Hpat. lia. }
    rewrite ((LL process_instr) st1 L i ks Hin1 HT Haok1 HL Hp1).
    pose proof (args_ok_length L _ _ _ Haok) as Hlen.
    assert (Esz : a_size st + lenN (ienc i) = a_size st + 1 + lenN (zenc L (a_size st) ks (args i))) by (rewrite (ienc_len i ks HT Hlen L (a_size st)); lia).
    change (flat_map (fun pi => lbl_lines L (fst pi) ++ [32 :: 32 :: name_bytes (op (snd pi)) ++ fmt_operands m L (fst pi) (op (snd pi)) 0 (kinds_of (op (snd pi))) (args (snd pi))]) D ++ lbl_lines L e)
      with (printed_lines m L D e).
    rewrite (IH _ (a_size st + lenN (ienc i)) e Hch').
    + cbn [sim]. unfold step_instr. fold st1. rewrite ((LL kinds_of_T) _ _ HT), F2, F3. reflexivity.
    + unfold upd. cbn [a_in_fn]. rewrite F1. exact Hin.
    + unfold upd. cbn [a_cur]. rewrite F2. reflexivity.
    + unfold upd. cbn [a_size]. rewrite F3, lenN_cons, Esz. lia.
    + exact Hok'.
    + intros l Hl Hfn. unfold upd in Hl. cbn [a_labels] in Hl.
      apply (lab_inv_label L (a_cur st) st (a_size st) (a_size st + lenN (ienc i))); try assumption; try reflexivity.
      rewrite (ienc_len i ks HT Hlen L (a_size st)). lia.
    + unfold upd. cbn [a_labels]. rewrite F7. cbn [map app filter fst] in Hlab.
      destruct (mem_N (a_size st) L); unfold lenN in *; cbn [length] in *. all: lia.
    + unfold upd. cbn [a_patches]. rewrite lenN_app, F4. pose proof (mk_patches_len L (a_cur st1) (a_size st1) ks (args i) (a_size st1 + 1) Hlen).
      cbn [total_i32 fold_right snd] in Hpat. rewrite ((LL kinds_of_T) _ _ HT) in Hpat. fold (total_i32 D) in Hpat. lia.
Qed.

(* ---------------------------------------------------------------- what the final state contains *)
Definition all_patches (L : list N) (cur : N) (D : list (N * instr)) : list patch :=
  flat_map (fun pi => mk_patches L cur (fst pi) (fst pi + 1) (kinds_of (op (snd pi))) (args (snd pi))) D.
Definition zcode (L : list N) (D : list (N * instr)) : list byte :=
  flat_map (fun pi => op (snd pi) :: zenc L (fst pi) (kinds_of (op (snd pi))) (args (snd pi))) D.
Definition code_of_D (D : list (N * instr)) : list byte := flat_map (fun pi => ienc (snd pi)) D.
Definition lab1 (L : list N) (cur q : N) : list label :=
  match index_of q L 0 with Some idx => [{| l_name := label_name idx; l_off := q; l_fn := cur |}] | None => [] end.
Definition labs (L : list N) (cur : N) (ps : list N) : list label := flat_map (lab1 L cur) ps.

Lemma maybe_label_labels L st q : a_labels (maybe_label L st q) = a_labels st ++ lab1 L (a_cur st) (a_size st) \/ True.
Proof. right. exact I. Qed.

Lemma maybe_label_labels_eq L st q : a_size st = q -> a_labels (maybe_label L st q) = a_labels st ++ lab1 L (a_cur st) q.
Proof.
  intros <-. unfold maybe_label, lab1. destruct (index_of (a_size st) L 0); [reflexivity|]. rewrite app_nil_r. reflexivity.
Qed.

Lemma sim_fields L : forall D st p e, chain p D e -> a_size st = p -> Forall (instr_ok L) D ->
  a_in_fn (sim L st D) = a_in_fn st /\ a_cur (sim L st D) = a_cur st /\ a_mod (sim L st D) = a_mod st /\
  a_size (sim L st D) = e /\
  a_patches (sim L st D) = a_patches st ++ all_patches L (a_cur st) D /\
  rev (a_rcode (sim L st D)) = rev (a_rcode st) ++ zcode L D /\
  a_labels (sim L st D) = a_labels st ++ labs L (a_cur st) (map fst D).
Proof.
  induction D as [|[p0 i] D IH]; intros st p e Hch Hsz Hok.
  - inversion Hch; subst. cbn [sim all_patches zcode labs map flat_map]. rewrite !app_nil_r. repeat split; reflexivity.
  - inversion Hch as [|? ? ? ? Hch']; subst. inversion Hok as [|? ? [ks [HT Haok]] Hok']; subst. cbn [fst snd] in *.
    pose proof (args_ok_length L _ _ _ Haok) as Hlen.
    destruct (maybe_label_fields L st (a_size st)) as [F1 [F2 [F3 [F4 [F5 [F6 F7]]]]]].
    cbn [sim]. specialize (IH (step_instr L st (a_size st) i) (a_size st + lenN (ienc i)) e Hch').
    destruct IH as [I1 [I2 [I3 [I4 [I5 [I6 I7]]]]]]; [|exact Hok'|].
    + unfold step_instr, upd. cbn [a_size]. rewrite F3, ((LL kinds_of_T) _ _ HT), (ienc_len i ks HT Hlen L (a_size st)), lenN_cons. lia.
    + rewrite I1, I2, I3, I4, I5, I6, I7. unfold step_instr, upd.
      cbn [a_in_fn a_cur a_mod a_patches a_rcode a_labels]. rewrite F1, F2, F4, F5, F6.
      rewrite (maybe_label_labels_eq L st (a_size st) eq_refl).
      cbn [all_patches zcode labs map flat_map fst snd]. rewrite rev_app_distr, rev_involutive, <- !app_assoc.
      repeat split; reflexivity.
Qed.

(* ---------------------------------------------------------------- resolving the patches at .end *)
Lemma resolve_app TLs a : forall b cur c, resolve a TLs cur c =
  resolve a TLs cur c -> resolve (a ++ b) TLs cur c = match resolve a TLs cur c with Some c' => resolve b TLs cur c' | None => None end.
Proof.
  induction a as [|p a IH]; intros b cur c _; [reflexivity|]. cbn [app resolve].
  destruct (negb (p_fn p =? cur)); [apply IH; reflexivity|].
  destruct (find_label TLs (p_label p) cur); [apply IH; reflexivity|reflexivity].
Qed.

Lemma find_label_skip LS0 : forall ls name cur, (forall l, In l LS0 -> l_fn l <> cur) ->
  find_label (LS0 ++ ls) name cur = find_label ls name cur.
Proof.
  induction LS0 as [|l LS0 IH]; intros ls name cur H; [reflexivity|]. cbn [app find_label].
  destruct (N.eqb_spec (l_fn l) cur) as [E|E]; [exfalso; apply (H l); [left; reflexivity|exact E]|].
  cbn [andb]. apply IH. intros l' Hl'. apply H. right. exact Hl'.
Qed.

Lemma find_label_labs L cur t idx : index_of t L 0 = Some idx -> forall ps, In t ps ->
  exists l, find_label (labs L cur ps) (label_name idx) cur = Some l /\ l_off l = t.
Proof.
  intros Ei. induction ps as [|q ps IH]; intros Hin; [destruct Hin|].
  unfold labs. cbn [flat_map]. fold (labs L cur ps). unfold lab1 at 1.
  destruct (index_of q L 0) as [idx'|] eqn:Eq.
  - cbn [app find_label l_fn l_name]. rewrite N.eqb_refl. cbn [andb].
    destruct (N.eq_dec idx' idx) as [->|Hne].
    + rewrite bytes_eqb_refl. eexists. split; [reflexivity|]. cbn [l_off]. eapply index_of_inj; eassumption.
    + rewrite bytes_eqb_neq by (intros E; apply label_name_inj in E; contradiction).
      destruct Hin as [->|Hin]; [rewrite Eq in Ei; inversion Ei; contradiction|apply IH, Hin].
  - cbn [app]. destruct Hin as [->|Hin]; [rewrite Eq in Ei; discriminate|apply IH, Hin].
Qed.

Lemma mem_N_In t : forall L, mem_N t L = true -> In t L.
Proof.
  induction L as [|y L IH]; intros H; [discriminate|]. cbn [mem_N] in H.
  destruct (N.eqb_spec t y) as [->|]; [left; reflexivity|right; apply IH, H].
Qed.

Lemma poke4_at pre v rest off : lenN pre = off ->
  poke4 (pre ++ 0 :: 0 :: 0 :: 0 :: rest) off v = pre ++ le_bytes 4 v ++ rest.
Proof.
  intros H. change (0 :: 0 :: 0 :: 0 :: rest) with ([0; 0; 0; 0] ++ rest). unfold poke4. assert (E : N.to_nat off = length pre) by (unfold lenN in H; lia).
  rewrite E, firstn_app, firstn_all, Nat.sub_diag. cbn [firstn]. rewrite app_nil_r. f_equal. f_equal.
  rewrite skipn_app. rewrite skipn_all2 by lia. replace (length pre + 4 - length pre)%nat with 4%nat by lia. reflexivity.
Qed.

Lemma u32_back p v : p < 4294967296 -> v < 4294967296 -> u32 (u32 (p + v) + 4294967296 - p) = v.
Proof.
  intros Hp Hv. unfold u32.
  destruct (N.lt_ge_cases (p + v) 4294967296) as [H|H].
  - rewrite (N.mod_small (p + v)) by exact H. replace (p + v + 4294967296 - p) with (v + 1 * 4294967296) by lia.
    rewrite N.mod_add by lia. apply N.mod_small, Hv.
  - assert (E : (p + v) mod 4294967296 = p + v - 4294967296).
    { symmetry. apply (N.mod_unique _ _ 1); lia. }
    rewrite E. replace (p + v - 4294967296 + 4294967296 - p) with v by lia. apply N.mod_small, Hv.
Qed.

Section Resolve.
Variable L : list N.
Variable cur : N.
Variable LS : list label.
Variable bnd : list N.
Hypothesis HLbnd : forall t, In t L -> In t bnd.
Hypothesis Hfind : forall t idx, index_of t L 0 = Some idx -> In t bnd ->
  exists l, find_label LS (label_name idx) cur = Some l /\ l_off l = t.

Lemma resolve_operands start : start < 4294967296 -> forall ks vs pre rest off,
  AsmLine.args_ok good L start ks vs -> lenN pre = off ->
  resolve (mk_patches L cur start off ks vs) LS cur (pre ++ zenc L start ks vs ++ rest) = Some (pre ++ enc_of ks vs ++ rest).
Proof.
  intros Hst. induction ks as [|k ks IH]; intros [|v vs] pre rest off Hok Hpre; cbn [AsmLine.args_ok] in Hok; try contradiction.
  - reflexivity.
  - destruct Hok as [[Hv _] Hr]. cbn [mk_patches zenc enc_of]. unfold patch1, zenc1, labelled.
    destruct (okind_eqb k KI32 && mem_N (u32 (start + v)) L) eqn:Ek.
    + apply andb_true_iff in Ek. destruct Ek as [Ek Hl].
      assert (k = KI32) by (destruct k; try discriminate Ek; reflexivity). subst k.
      rewrite pow256 in Hv.
      cbn [app resolve p_fn p_label p_code_off p_start]. rewrite N.eqb_refl. cbn [negb].
      destruct (mem_index _ L 0 Hl) as [idx Ei].
      destruct (Hfind _ idx Ei (HLbnd _ (mem_N_In _ _ Hl))) as [l [Efl Eoff]].
      unfold lbl_idx. rewrite Ei, Efl, Eoff.
      cbn [app]. rewrite poke4_at by exact Hpre. rewrite u32_back by assumption.
      cbn [ksize].
      pose proof (IH vs (pre ++ le_bytes 4 v) rest (off + N.of_nat 4) Hr) as IH'.
      rewrite <- !app_assoc in IH'. rewrite <- !app_assoc. apply IH'.
      rewrite lenN_app. unfold lenN at 2. rewrite le_bytes_length. rewrite Hpre. reflexivity.
    + cbn [app].
      pose proof (IH vs (pre ++ le_bytes (ksize k) v) rest (off + N.of_nat (ksize k)) Hr) as IH'.
      rewrite <- !app_assoc in IH'. rewrite <- !app_assoc. apply IH'.
      rewrite lenN_app. unfold lenN at 2. rewrite le_bytes_length. rewrite Hpre. reflexivity.
Qed.

Lemma resolve_all : forall D p e pre, chain p D e -> e < 4294967296 -> Forall (instr_ok L) D -> lenN pre = p ->
  resolve (all_patches L cur D) LS cur (pre ++ zcode L D) = Some (pre ++ code_of_D D).
Proof.
  induction D as [|[p0 i] D IH]; intros p e pre Hch He Hok Hpre.
  - reflexivity.
  - inversion Hch as [|? ? ? ? Hch']; subst. inversion Hok as [|? ? [ks [HT Haok]] Hok']; subst. cbn [fst snd] in *.
    pose proof (args_ok_length L _ _ _ Haok) as Hlen.
    assert (Hle : forall p D e, chain p D e -> p <= e).
    { clear. intros p D e H. induction H; lia. }
    pose proof (Hle _ _ _ Hch') as Hpe.
    cbn [all_patches zcode code_of_D flat_map fst snd]. fold (all_patches L cur D). fold (zcode L D). fold (code_of_D D).
    rewrite resolve_app by reflexivity. unfold ienc. rewrite ((LL kinds_of_T) _ _ HT).
    replace (pre ++ (op i :: zenc L (lenN pre) ks (args i)) ++ zcode L D) with ((pre ++ [op i]) ++ zenc L (lenN pre) ks (args i) ++ zcode L D)
      by (rewrite <- app_assoc; reflexivity).
    rewrite (resolve_operands (lenN pre)); [| |exact Haok|].
    + replace ((pre ++ [op i]) ++ enc_of ks (args i) ++ zcode L D) with ((pre ++ op i :: enc_of ks (args i)) ++ zcode L D)
        by (rewrite <- !app_assoc; reflexivity).
      rewrite (IH (lenN pre + lenN (ienc i)) e); [rewrite <- !app_assoc; reflexivity|exact Hch'|exact He|exact Hok'|].
      rewrite lenN_app. unfold ienc. rewrite ((LL kinds_of_T) _ _ HT). reflexivity.
    + rewrite (ienc_len i ks HT Hlen L (lenN pre)) in Hpe. lia.
    + rewrite lenN_app. reflexivity.
Qed.
End Resolve.

End Fn.
