(* Proofs about the instruction codec, for an arbitrary table. *)
From Coq Require Import NArith ZArith List Lia Bool.
From NV Require Import Base.Bytes Isa.Codec.
Import ListNotations.
Local Open Scope N_scope.

Fixpoint wf_args (ks : list okind) (vs : list N) : Prop :=
  match ks, vs with
  | [], [] => True
  | k :: ks', v :: vs' => v < 256 ^ N.of_nat (ksize k) /\ wf_args ks' vs'
  | _, _ => False
  end.

Lemma wf_argsb_spec ks vs : wf_argsb ks vs = true <-> wf_args ks vs.
Proof.
  revert vs; induction ks as [|k ks IH]; intros [|v vs]; simpl; try tauto; try (split; [discriminate|tauto]).
  rewrite andb_true_iff, N.ltb_lt, IH. tauto.
Qed.

Definition wf_instr (T : table_t) (i : instr) : Prop :=
  op i < 256 /\ exists ks, T (op i) = Some ks /\ wf_args ks (args i).

Lemma wf_instrb_spec T i : wf_instrb T i = true <-> wf_instr T i.
Proof.
  unfold wf_instrb, wf_instr. rewrite andb_true_iff, N.ltb_lt.
  destruct (T (op i)) as [ks|].
  - rewrite wf_argsb_spec. split.
    + intros [H1 H2]. split; [exact H1|]. exists ks. split; [reflexivity|exact H2].
    + intros [H1 [ks' [E H2]]]. inversion E; subst. tauto.
  - split; [intros [_ H]; discriminate|intros [_ [ks' [E _]]]; discriminate].
Qed.

Lemma enc_args_length ks : forall vs bs, enc_args ks vs = Some bs ->
  length bs = fold_right (fun k a => (ksize k + a)%nat) 0%nat ks.
Proof.
  induction ks as [|k ks IH]; intros [|v vs] bs H; simpl in *; try discriminate.
  - inversion H; reflexivity.
  - destruct (enc_args ks vs) as [r|] eqn:E; [|discriminate]. inversion H; subst.
    rewrite app_length, le_bytes_length, (IH vs r E). reflexivity.
Qed.

Lemma enc_args_nargs ks : forall vs bs, enc_args ks vs = Some bs -> length vs = length ks.
Proof.
  induction ks as [|k ks IH]; intros [|v vs] bs H; simpl in *; try discriminate; try reflexivity.
  destruct (enc_args ks vs) as [r|] eqn:E; [|discriminate]. f_equal. eapply IH; eassumption.
Qed.

Lemma enc_args_total ks : forall vs, length vs = length ks -> exists bs, enc_args ks vs = Some bs.
Proof.
  induction ks as [|k ks IH]; intros [|v vs] H; simpl in *; try discriminate.
  - eexists; reflexivity.
  - destruct (IH vs) as [r E]; [lia|]. rewrite E. eexists; reflexivity.
Qed.

Lemma wf_args_length ks : forall vs, wf_args ks vs -> length vs = length ks.
Proof.
  induction ks as [|k ks IH]; intros [|v vs] H; simpl in *; try contradiction; try reflexivity.
  f_equal. apply IH. tauto.
Qed.

Lemma enc_args_ok ks : forall vs bs, enc_args ks vs = Some bs -> bytes_ok bs.
Proof.
  induction ks as [|k ks IH]; intros [|v vs] bs H; simpl in *; try discriminate.
  - inversion H. constructor.
  - destruct (enc_args ks vs) as [r|] eqn:E; [|discriminate]. inversion H; subst.
    apply bytes_ok_app. split; [apply le_bytes_ok|eapply IH; eassumption].
Qed.

Lemma dec_enc_args ks : forall vs bs rest, wf_args ks vs -> enc_args ks vs = Some bs ->
  dec_args ks (bs ++ rest) = Some (vs, length bs).
Proof.
  induction ks as [|k ks IH]; intros [|v vs] bs rest Hwf Henc; simpl in *; try contradiction; try discriminate.
  - inversion Henc; reflexivity.
  - destruct Hwf as [Hv Hwf]. destruct (enc_args ks vs) as [r|] eqn:E; [|discriminate].
    inversion Henc; subst bs; clear Henc.
    rewrite <- app_assoc.
    assert (L : length (le_bytes (ksize k) v) = ksize k) by apply le_bytes_length.
    rewrite app_length, L.
    destruct (Nat.ltb_spec (ksize k + length (r ++ rest)) (ksize k)); [lia|].
    rewrite <- L at 1. rewrite skipn_app, skipn_all, Nat.sub_diag. simpl.
    rewrite (IH vs r rest Hwf E).
    rewrite <- L at 1. rewrite firstn_app, firstn_all, Nat.sub_diag. simpl. rewrite app_nil_r.
    rewrite of_le_le_bytes by exact Hv. rewrite app_length, L. reflexivity.
Qed.

(* decode (encode i ++ rest) = i, consuming exactly the encoding *)
Theorem decode_encode T i bs rest :
  wf_instr T i -> encode T i = Some bs -> decode T (bs ++ rest) = Some (i, length bs).
Proof.
  unfold encode, decode, wf_instr. intros [_ [ks0 [E0 Hwf]]] H.
  rewrite E0 in H.
  destruct (enc_args ks0 (args i)) as [r|] eqn:E2; [|discriminate].
  inversion H; subst bs; clear H. simpl. rewrite E0.
  rewrite (dec_enc_args ks0 (args i) r rest Hwf E2).
  destruct i; reflexivity.
Qed.

Theorem encode_total T i : wf_instr T i -> exists bs, encode T i = Some bs /\ bytes_ok bs.
Proof.
  unfold wf_instr, encode. intros [Ho [ks [E Hwf]]]. rewrite E.
  destruct (enc_args_total ks (args i) (wf_args_length _ _ Hwf)) as [r Er]. rewrite Er.
  eexists; split; [reflexivity|]. constructor; [exact Ho|]. eapply enc_args_ok; eassumption.
Qed.

(* the other direction: whatever decodes re-encodes to exactly the consumed bytes *)
Lemma enc_dec_args ks : forall bs vs n, bytes_ok bs -> dec_args ks bs = Some (vs, n) ->
  enc_args ks vs = Some (firstn n bs) /\ wf_args ks vs /\ (n <= length bs)%nat.
Proof.
  induction ks as [|k ks IH]; intros bs vs n Hok H; simpl in *.
  - inversion H; subst. simpl. repeat split; lia.
  - destruct (Nat.ltb_spec (length bs) (ksize k)) as [|Hlen]; [discriminate|].
    destruct (dec_args ks (skipn (ksize k) bs)) as [[vs' n']|] eqn:E; [|discriminate].
    inversion H; subst vs n; clear H.
    destruct (IH _ _ _ (bytes_ok_skipn _ _ Hok) E) as [E1 [W1 L1]].
    rewrite skipn_length in L1.
    cbn [enc_args wf_args]. rewrite E1.
    assert (F : length (firstn (ksize k) bs) = ksize k) by (rewrite firstn_length; lia).
    split; [|split].
    + f_equal. rewrite <- F at 1. rewrite le_bytes_of_le by (apply bytes_ok_firstn; exact Hok).
      rewrite <- (firstn_skipn (ksize k) bs) at 3.
      rewrite firstn_app, F.
      replace (ksize k + n' - ksize k)%nat with n' by lia.
      rewrite firstn_firstn. replace (Nat.min (ksize k + n') (ksize k)) with (ksize k) by lia.
      reflexivity.
    + split; [|exact W1].
      pose proof (of_le_bound (firstn (ksize k) bs) (bytes_ok_firstn _ _ Hok)) as B. rewrite F in B. exact B.
    + lia.
Qed.

Theorem encode_decode T bs i n :
  bytes_ok bs -> decode T bs = Some (i, n) -> encode T i = Some (firstn n bs) /\ wf_instr T i /\ (n <= length bs)%nat.
Proof.
  unfold decode, encode, wf_instr. intros Hok H.
  destruct bs as [|o r]; [discriminate|].
  destruct (T o) as [ks|] eqn:E; [|discriminate].
  destruct (dec_args ks r) as [[vs n']|] eqn:E2; [|discriminate].
  inversion H; subst i n; clear H. simpl. rewrite E.
  inversion Hok as [|? ? Ho Hr]; subst.
  destruct (enc_dec_args ks r vs n' Hr E2) as [E1 [W L]]. rewrite E1.
  split; [reflexivity|]. split; [|lia]. split; [exact Ho|]. exists ks. split; [reflexivity|exact W].
Qed.

Theorem decode_undefined T o rest : T o = None -> decode T (o :: rest) = None.
Proof. intros H. simpl. rewrite H. reflexivity. Qed.

Theorem decode_empty T : decode T [] = None.
Proof. reflexivity. Qed.

Lemma dec_args_short ks : forall bs, (length bs < fold_right (fun k a => (ksize k + a)%nat) 0%nat ks)%nat ->
  dec_args ks bs = None.
Proof.
  induction ks as [|k ks IH]; intros bs H; simpl in *; [lia|].
  destruct (Nat.ltb_spec (length bs) (ksize k)); [reflexivity|].
  rewrite IH; [reflexivity|]. rewrite skipn_length. lia.
Qed.

(* an instruction cut short anywhere is refused, never mis-decoded *)
Theorem decode_truncated T i bs k :
  encode T i = Some bs -> (k < length bs)%nat -> decode T (firstn k bs) = None.
Proof.
  unfold encode, decode. intros H Hk.
  destruct (T (op i)) as [ks|] eqn:E; [|discriminate].
  destruct (enc_args ks (args i)) as [r|] eqn:E2; [|discriminate].
  inversion H; subst bs; clear H.
  destruct k as [|k]; [reflexivity|]. simpl. rewrite E.
  rewrite dec_args_short; [reflexivity|].
  rewrite <- (enc_args_length _ _ _ E2). rewrite firstn_length. simpl in Hk. lia.
Qed.

(* decoding depends only on the bytes it consumes *)
Theorem decode_prefix T bs i n rest :
  bytes_ok bs -> decode T bs = Some (i, n) -> decode T (firstn n bs ++ rest) = Some (i, n).
Proof.
  intros Hok H. destruct (encode_decode T bs i n Hok H) as [E [W L]].
  rewrite (decode_encode T i (firstn n bs) rest W E). rewrite firstn_length. f_equal. f_equal. lia.
Qed.

Theorem encode_length T i bs : encode T i = Some bs -> size_of T (op i) = Some (length bs).
Proof.
  unfold encode, size_of. destruct (T (op i)) as [ks|]; [|discriminate].
  destruct (enc_args ks (args i)) as [r|] eqn:E; [|discriminate]. intros H; inversion H; subst.
  simpl. rewrite (enc_args_length _ _ _ E). reflexivity.
Qed.

(* table-level facts for an association-list table *)
Lemma lookup_in {A} (l : list (N * A)) o v : lookup l o = Some v -> In (o, v) l.
Proof.
  induction l as [|[k x] r IH]; simpl; [discriminate|].
  destruct (N.eqb_spec k o); intros H.
  - inversion H; subst. left; reflexivity.
  - right; apply IH; exact H.
Qed.

Theorem wf_table_size l : wf_table_list l = true ->
  forall i bs, encode (table_of l) i = Some bs -> (length bs <= 32)%nat /\ (length (args i) <= 4)%nat.
Proof.
  unfold wf_table_list. rewrite andb_true_iff, forallb_forall. intros [_ Hall] i bs H.
  pose proof (encode_length _ _ _ H) as Hs. unfold size_of in Hs.
  unfold encode in H. unfold table_of in *.
  destruct (lookup l (op i)) as [[nm ks]|] eqn:E; [|discriminate].
  specialize (Hall _ (lookup_in _ _ _ E)). unfold wf_entry in Hall. simpl in Hall.
  rewrite !andb_true_iff in Hall. destruct Hall as [[_ H4] H32].
  apply Nat.leb_le in H4. apply Nat.leb_le in H32.
  inversion Hs as [Hs']. split; [lia|].
  destruct (enc_args ks (args i)) as [r|] eqn:E2; [|discriminate].
  rewrite (enc_args_nargs _ _ _ E2). exact H4.
Qed.
