(* NanoISA instruction codec: executable model of isa_encode / isa_decode (src/nanoisa/isa.c).
   Written for an ARBITRARY table; the real table is NV.gen.IsaTable (regenerated from isa.c).
   An operand is its raw unsigned bit pattern (what the C stores through the union and what
   memcpy moves for a double), so NaN payloads, -0.0 and negative numbers are ordinary values.
   No proofs in this file (it is extracted). *)
From Coq Require Import NArith ZArith List Bool.
From Coq Require String.
Notation string := String.string.
From NV Require Import Base.Bytes.
Import ListNotations.
Local Open Scope N_scope.

Inductive okind := KU8 | KU16 | KU32 | KI32 | KI64 | KF64.
Definition ksize (k : okind) : nat :=
  match k with KU8 => 1 | KU16 => 2 | KU32 | KI32 => 4 | KI64 | KF64 => 8 end%nat.
Definition okind_eqb (a b : okind) : bool :=
  match a, b with KU8,KU8 | KU16,KU16 | KU32,KU32 | KI32,KI32 | KI64,KI64 | KF64,KF64 => true | _,_ => false end.

Record instr := { op : N; args : list N }.
Definition table_t := N -> option (list okind).

(* isa_encode: operand i is truncated to its kind's width by the C union member type;
   the model requires the pattern to fit (wf_args) and otherwise still writes the low bytes,
   exactly as the C does. *)
Fixpoint enc_args (ks : list okind) (vs : list N) : option (list byte) :=
  match ks, vs with
  | [], [] => Some []
  | k :: ks', v :: vs' =>
      match enc_args ks' vs' with Some r => Some (le_bytes (ksize k) v ++ r) | None => None end
  | _, _ => None
  end.
Definition encode (T : table_t) (i : instr) : option (list byte) :=
  match T (op i) with
  | None => None
  | Some ks => match enc_args ks (args i) with Some r => Some (op i :: r) | None => None end
  end.

Fixpoint dec_args (ks : list okind) (bs : list byte) : option (list N * nat) :=
  match ks with
  | [] => Some ([], 0%nat)
  | k :: ks' =>
      if Nat.ltb (length bs) (ksize k) then None else
      match dec_args ks' (skipn (ksize k) bs) with
      | Some (vs, n) => Some (of_le (firstn (ksize k) bs) :: vs, (ksize k + n)%nat)
      | None => None
      end
  end.
Definition decode (T : table_t) (bs : list byte) : option (instr * nat) :=
  match bs with
  | [] => None
  | o :: r => match T o with
              | None => None
              | Some ks => match dec_args ks r with
                           | Some (vs, n) => Some ({| op := o; args := vs |}, S n)
                           | None => None end
              end
  end.

Fixpoint wf_argsb (ks : list okind) (vs : list N) : bool :=
  match ks, vs with
  | [], [] => true
  | k :: ks', v :: vs' => (v <? 256 ^ N.of_nat (ksize k)) && wf_argsb ks' vs'
  | _, _ => false
  end.
Definition wf_instrb (T : table_t) (i : instr) : bool :=
  (op i <? 256) && match T (op i) with Some ks => wf_argsb ks (args i) | None => false end.

Definition size_of (T : table_t) (o : N) : option nat :=
  match T o with Some ks => Some (S (fold_right (fun k a => (ksize k + a)%nat) 0%nat ks)) | None => None end.

(* table given as an association list (the generated form) *)
Fixpoint lookup {A} (l : list (N * A)) (o : N) : option A :=
  match l with [] => None | (k, v) :: r => if N.eqb k o then Some v else lookup r o end.
Definition table_of (l : list (N * (string * list okind))) : table_t :=
  fun o => match lookup l o with Some (_, ks) => Some ks | None => None end.
Definition name_of (l : list (N * (string * list okind))) (o : N) : option string :=
  match lookup l o with Some (s, _) => Some s | None => None end.

(* well-formed table: opcodes are bytes, keys distinct, at most 4 operands, encoded size <= 32 *)
Fixpoint distinct_keys {A} (l : list (N * A)) : bool :=
  match l with [] => true | (k, _) :: r => negb (existsb (fun p => N.eqb (fst p) k) r) && distinct_keys r end.
Definition wf_entry (e : N * (string * list okind)) : bool :=
  (fst e <? 256) && Nat.leb (length (snd (snd e))) 4 &&
  Nat.leb (S (fold_right (fun k a => (ksize k + a)%nat) 0%nat (snd (snd e)))) 32.
Definition wf_table_list (l : list (N * (string * list okind))) : bool :=
  distinct_keys l && forallb wf_entry l.

(* redundancies the C table carries (stored opcode byte, operand_count, isa_operand_size) must agree with the model's view *)
Fixpoint list_N_eqb (a b : list N) : bool :=
  match a, b with [], [] => true | x :: a', y :: b' => N.eqb x y && list_N_eqb a' b' | _, _ => false end.
Definition meta_entry_ok (l : list (N * (string * list okind))) (e : N * (N * (N * list N))) : bool :=
  match lookup l (fst e), snd e with
  | Some (_, ks), (stored, (cnt, szs)) =>
      N.eqb stored (fst e) && N.eqb cnt (N.of_nat (length ks)) && list_N_eqb szs (map (fun k => N.of_nat (ksize k)) ks)
  | None, _ => false
  end.
Definition meta_ok (l : list (N * (string * list okind))) (m : list (N * (N * (N * list N)))) : bool :=
  Nat.eqb (length l) (length m) && forallb (meta_entry_ok l) m.
