(* What the assembler does with one line the disassembler printed (proofs for NV.Isa.Asm). *)
From Coq Require Import NArith ZArith List Lia Bool.
From Coq Require String.
From NV Require Import Base.Bytes Isa.Codec Isa.CodecProofs Isa.Asm Isa.AsmDec Isa.AsmLex gen.AsmConsts.
Import ListNotations.
Local Open Scope N_scope.

(* the opcodes whose first operand is followed by a `; ...` comment must have that operand as their only one *)
Definition comment_op (o : N) : bool := (o =? op_push_str) || (o =? op_call) || (o =? op_call_extern).
Definition comment_ops_ok (TL : list (N * (String.string * list okind))) : bool :=
  forallb (fun e => if comment_op (fst e) then match snd (snd e) with [KU32] => true | _ => false end else true) TL.

(* ---------------------------------------------------------------- assembler state updates *)
Definition upd (st : astate) (bs : list byte) (ps : list patch) : astate :=
  {| a_mod := a_mod st; a_labels := a_labels st; a_patches := a_patches st ++ ps; a_in_fn := a_in_fn st; a_cur := a_cur st;
     a_rcode := rev bs ++ a_rcode st; a_size := a_size st + lenN bs |}.
Lemma lenN_app {A} (a b : list A) : lenN (a ++ b) = lenN a + lenN b.
Proof. unfold lenN. rewrite app_length, Nat2N.inj_add. reflexivity. Qed.
Lemma lenN_cons {A} (x : A) l : lenN (x :: l) = 1 + lenN l.
Proof. unfold lenN. cbn [length]. lia. Qed.
Lemma lenN_nil {A} : lenN (@nil A) = 0.
Proof. reflexivity. Qed.
Lemma upd_upd st b1 p1 b2 p2 : upd (upd st b1 p1) b2 p2 = upd st (b1 ++ b2) (p1 ++ p2).
Proof.
  unfold upd. cbn [a_mod a_labels a_patches a_in_fn a_cur a_rcode a_size].
  rewrite rev_app_distr, <- !app_assoc, lenN_app, N.add_assoc. reflexivity.
Qed.
Lemma emit_upd st bs : emit st bs = upd st bs [].
Proof. unfold emit, upd. rewrite rev_append_rev, app_nil_r. reflexivity. Qed.
Lemma upd_nil st : upd st [] [] = st.
Proof. unfold upd. destruct st. cbn. rewrite app_nil_r, N.add_0_r. reflexivity. Qed.

Definition lbl_idx (L : list N) (t : N) : N := match index_of t L 0 with Some i => i | None => 0 end.

Lemma mem_index t : forall L i, mem_N t L = true -> exists j, index_of t L i = Some j.
Proof.
  induction L as [|y L IH]; intros i H; [discriminate|]. cbn [mem_N index_of] in *.
  destruct (t =? y); [eexists; reflexivity|]. apply IH. exact H.
Qed.

Lemma index_of_mem0 t : forall L i j, index_of t L i = Some j -> mem_N t L = true.
Proof.
  induction L as [|y L IH]; intros i j H; [discriminate|]. cbn [index_of mem_N] in *.
  destruct (t =? y); [reflexivity|]. eapply IH, H.
Qed.
Lemma mem_false_index t L : mem_N t L = false -> index_of t L 0 = None.
Proof. intros H. destruct (index_of t L 0) eqn:E; [|reflexivity]. apply index_of_mem0 in E. congruence. Qed.
Lemma index_of_bound t : forall L i j, index_of t L i = Some j -> j < i + lenN L.
Proof.
  induction L as [|y L IH]; intros i j H; [discriminate|]. cbn [index_of] in H. rewrite lenN_cons.
  destruct (t =? y); [inversion H; lia|]. apply IH in H. lia.
Qed.
Lemma index_of_ge t : forall L i j, index_of t L i = Some j -> i <= j.
Proof.
  induction L as [|y L IH]; intros i j H; [discriminate|]. cbn [index_of] in H.
  destruct (t =? y); [inversion H; lia|]. apply IH in H. lia.
Qed.
Lemma lbl_idx_bound L t : lbl_idx L t < 1 + lenN L.
Proof. unfold lbl_idx. destruct (index_of t L 0) eqn:E; [apply index_of_bound in E; lia|lia]. Qed.


Lemma ident_plain c : is_ident c = true -> plain_char c = true.
Proof.
  unfold is_ident, is_alpha_, plain_char. intros H.
  repeat match goal with |- context [?a =? ?b] => destruct (N.eqb_spec a b) as [->|]; [discriminate H|] end. reflexivity.
Qed.
Lemma all_ident_plain l : all_ident l = true -> Forall (fun c => plain_char c = true) l.
Proof.
  induction l as [|c l IH]; intros H; [constructor|]. cbn [all_ident] in H. apply andb_true_iff in H.
  constructor; [apply ident_plain; tauto|apply IH; tauto].
Qed.
Lemma alpha_ident c : is_alpha_ c = true -> is_ident c = true.
Proof. unfold is_ident. intros ->. reflexivity. Qed.
Lemma alpha_facts c : is_alpha_ c = true -> is_ws c = false /\ c <> 59 /\ c <> 35 /\ c <> 46 /\ c <> 58.
Proof.
  intros H.
  assert (G : forall d, is_alpha_ d = false -> c <> d) by (intros d Hd E; subst; congruence).
  split; [|repeat split; apply G; reflexivity].
  unfold is_ws. rewrite (proj2 (N.eqb_neq c 32)) by (apply G; reflexivity).
  rewrite (proj2 (N.eqb_neq c 9)) by (apply G; reflexivity). reflexivity.
Qed.
Lemma plain_facts c : plain_char c = true -> is_ws c = false /\ c <> 59 /\ c <> 35 /\ c <> 10 /\ c <> 0.
Proof.
  intros H.
  assert (G : forall d, plain_char d = false -> c <> d) by (intros d Hd E; subst; congruence).
  split; [|repeat split; apply G; reflexivity].
  unfold is_ws. rewrite (proj2 (N.eqb_neq c 32)) by (apply G; reflexivity).
  rewrite (proj2 (N.eqb_neq c 9)) by (apply G; reflexivity). reflexivity.
Qed.
Lemma dec_char_ident c : is_dec_char c = true -> is_ident c = true.
Proof. unfold is_dec_char, is_ident. intros ->. apply orb_true_r. Qed.

(* label names *)
Lemma le_digits_len f : forall n, (length (le_digits f n) <= f)%nat.
Proof.
  induction f as [|f IH]; intros n; [simpl; lia|]. rewrite le_digits_S. cbn [length].
  destruct (n / 10 =? 0); [simpl; lia|]. specialize (IH (n / 10)). lia.
Qed.
Lemma print_dec_len n : n < 4294967296 -> lenN (print_dec n) <= 33.
Proof.
  intros H. unfold print_dec, lenN. rewrite map_length, rev_length.
  pose proof (le_digits_len (S (N.to_nat (N.size n))) n) as L.
  assert (N.size n <= 32).
  { destruct (N.eq_dec n 0) as [->|Hn]; [simpl; lia|]. rewrite N.size_log2 by exact Hn.
    assert (N.log2 n < 32) by (apply N.log2_lt_pow2; lia). lia. }
  unfold byte in *. lia.
Qed.
Lemma label_name_ident i : all_ident (label_name i) = true.
Proof.
  unfold label_name. cbn [all_ident]. change (is_ident 76) with true. cbn [andb].
  pose proof (print_dec_all_digits i) as F. induction F as [|c l Hc F IH]; [reflexivity|].
  cbn [all_ident]. rewrite (dec_char_ident c Hc), IH. reflexivity.
Qed.
Lemma label_name_inj a b : label_name a = label_name b -> a = b.
Proof. unfold label_name. intros H. inversion H. apply print_dec_inj. assumption. Qed.
Lemma label_name_len i : i < 4294967296 -> lenN (label_name i) < 128.
Proof. intros H. unfold label_name. rewrite lenN_cons. pose proof (print_dec_len i H). lia. Qed.

(* a jump operand is assembled through a label exactly when its target is one of the function's labels *)
Definition labelled (L : list N) (pos : N) (k : okind) (v : N) : bool := okind_eqb k KI32 && mem_N (u32 (pos + v)) L.
Definition zenc1 (L : list N) (pos : N) (k : okind) (v : N) : list byte :=
  if labelled L pos k v then [0; 0; 0; 0] else le_bytes (ksize k) v.
Fixpoint zenc (L : list N) (pos : N) (ks : list okind) (vs : list N) : list byte :=
  match ks, vs with k :: ks', v :: vs' => zenc1 L pos k v ++ zenc L pos ks' vs' | _, _ => [] end.
Definition patch1 (L : list N) (cur start off : N) (k : okind) (v : N) : list patch :=
  if labelled L start k v
  then [{| p_label := label_name (lbl_idx L (u32 (start + v))); p_code_off := off; p_start := start; p_fn := cur |}]
  else [].
Fixpoint mk_patches (L : list N) (cur start off : N) (ks : list okind) (vs : list N) : list patch :=
  match ks, vs with
  | k :: ks', v :: vs' => patch1 L cur start off k v ++ mk_patches L cur start (off + N.of_nat (ksize k)) ks' vs'
  | _, _ => [] end.

Lemma zenc1_len L pos k v : lenN (zenc1 L pos k v) = N.of_nat (ksize k).
Proof.
  unfold zenc1, labelled, lenN. destruct k; cbn [okind_eqb andb]; rewrite ?le_bytes_length; try reflexivity.
  destruct (mem_N (u32 (pos + v)) L); [reflexivity|rewrite le_bytes_length; reflexivity].
Qed.

Lemma parse_unsigned_dec hi v rest : stops rest -> (Z.of_N v <= hi)%Z -> v < 9223372036854775808 ->
  parse_unsigned hi (32 :: print_dec v ++ rest) = Some (v, rest).
Proof.
  intros Hs Hhi Hv. unfold parse_unsigned, parse_range, parse_int64. rewrite skip_ws_sp.
  pose proof (print_dec_nonempty v) as Ne. pose proof (print_dec_all_digits v) as F.
  destruct (print_dec v) as [|c r] eqn:E; [congruence|]. inversion F; subst.
  cbn [app]. rewrite skip_ws_cons by (apply plain_facts, dec_char_plain; assumption).
  change (c :: r ++ rest) with ((c :: r) ++ rest). rewrite <- E, strtoll_print_dec by assumption.
  destruct (Z.ltb_spec (Z.of_N v) 0); [lia|]. destruct (Z.ltb_spec hi (Z.of_N v)); [lia|]. cbn [orb]. rewrite N2Z.id. reflexivity.
Qed.

Lemma pow256 k : 256 ^ N.of_nat (ksize k) = match k with KU8 => 256 | KU16 => 65536 | KU32 | KI32 => 4294967296 | KI64 | KF64 => 18446744073709551616 end.
Proof. destruct k; reflexivity. Qed.

Lemma count_i32_cons k ks : count_i32 (k :: ks) = (if okind_eqb k KI32 then 1 else 0) + count_i32 ks.
Proof. unfold count_i32. cbn [filter]. destruct (okind_eqb k KI32); [rewrite lenN_cons|]; lia. Qed.
Lemma patch1_len L cur start off k v : lenN (patch1 L cur start off k v) <= if okind_eqb k KI32 then 1 else 0.
Proof. unfold patch1, labelled. destruct (okind_eqb k KI32); cbn [andb]; [destruct (mem_N (u32 (start + v)) L)|]; cbn; lia. Qed.

Lemma starts_cons_ne c x r : x <> c -> starts c (x :: r) = None.
Proof. intros H. unfold starts. destruct (N.eqb_spec x c); [contradiction|reflexivity]. Qed.

Definition with_label (st : astate) (idx : N) : astate :=
  {| a_mod := a_mod st; a_labels := a_labels st ++ [{| l_name := label_name idx; l_off := a_size st; l_fn := a_cur st |}];
     a_patches := a_patches st; a_in_fn := a_in_fn st; a_cur := a_cur st; a_rcode := a_rcode st; a_size := a_size st |}.


Section Line.
Variable TL : list (N * (String.string * list okind)).
Variable print_f64 : N -> text.
Variable parse_f64 : text -> option (N * text).
Variable good : N -> bool.

Hypothesis Hnames : names_ok TL = true.
Hypothesis Hcmt : comment_ops_ok TL = true.
(* the oracle hypothesis: what the theorems need of printf("%.17g") / strtod for the float patterns called good *)
Definition f64_text_ok (v : N) : Prop :=
  Forall (fun c => plain_char c = true) (print_f64 v) /\ print_f64 v <> [] /\ hd 0 (print_f64 v) <> 58 /\
  forall rest, stops rest -> parse_f64 (print_f64 v ++ rest) = Some (v, rest).
Hypothesis Horacle : forall v, good v = true -> f64_text_ok v.
Set Default Proof Using "All".

Let T : table_t := table_of TL.
Notation asm_operand := (asm_operand parse_f64).
Notation asm_operands := (asm_operands parse_f64).
Notation asm_instruction := (asm_instruction TL parse_f64).
Notation process_line := (process_line TL parse_f64).
Notation fmt_operand := (fmt_operand print_f64).
Notation fmt_operands := (fmt_operands print_f64).

(* ---------------------------------------------------------------- the table *)
Lemma opcode_by_name_in l : distinct_names l = true -> forall o s ks, In (o, (s, ks)) l ->
  opcode_by_name l (B s) = Some (o, ks).
Proof.
  induction l as [|[o' [s' ks']] l IH]; intros Hd o s ks Hin; [destruct Hin|].
  cbn [distinct_names] in Hd. apply andb_true_iff in Hd. destruct Hd as [Hn Hd]. apply negb_true_iff in Hn.
  cbn [opcode_by_name]. destruct Hin as [E|Hin].
  - inversion E; subst. rewrite bytes_eqb_refl. reflexivity.
  - destruct (bytes_eqb (B s') (B s)) eqn:Eb; [|apply IH; assumption].
    exfalso. rewrite <- not_true_iff_false in Hn. apply Hn. apply existsb_exists.
    exists (o, (s, ks)). split; [exact Hin|]. cbn [fst snd]. apply bytes_eqb_eq in Eb. rewrite Eb. apply bytes_eqb_refl.
Qed.

Lemma name_ok_in o s ks : In (o, (s, ks)) TL -> name_ok (o, (s, ks)) = true.
Proof.
  intros Hin. unfold names_ok in Hnames. apply andb_true_iff in Hnames. destruct Hnames as [H _].
  rewrite forallb_forall in H. apply H, Hin.
Qed.

Lemma table_entry o ks : T o = Some ks -> exists s, lookup TL o = Some (s, ks) /\ name_of TL o = Some s.
Proof.
  unfold T, table_of, name_of. destruct (lookup TL o) as [[s ks']|] eqn:E; [|discriminate].
  intros H; inversion H; subst. exists s. split; reflexivity.
Qed.

Lemma comment_op_kinds o ks : T o = Some ks -> comment_op o = true -> ks = [KU32].
Proof.
  intros HT Hc. destruct (table_entry o ks HT) as [s [El _]]. apply lookup_in in El.
  unfold comment_ops_ok in Hcmt. rewrite forallb_forall in Hcmt. specialize (Hcmt _ El). cbn [fst snd] in Hcmt.
  rewrite Hc in Hcmt. destruct ks as [|[] [|? ?]]; try discriminate; reflexivity.
Qed.

(* ---------------------------------------------------------------- character classes *)
(* ---------------------------------------------------------------- operand text *)
Definition arg_text (L : list N) (pos : N) (k : okind) (v : N) : text :=
  match k with
  | KU8 | KU16 | KU32 => print_dec v
  | KI32 => if mem_N (u32 (pos + v)) L then label_name (lbl_idx L (u32 (pos + v))) else print_sdec (to_signed 32 v)
  | KI64 => print_sdec (to_signed 64 v)
  | KF64 => print_f64 v
  end.
Fixpoint args_text (L : list N) (pos : N) (ks : list okind) (vs : list N) : text :=
  match ks, vs with
  | k :: ks', v :: vs' => 32 :: arg_text L pos k v ++ args_text L pos ks' vs'
  | _, _ => [] end.

(* an operand the theorem covers: in range for its kind; a float the oracle handles *)
Definition arg_ok (L : list N) (pos : N) (k : okind) (v : N) : Prop :=
  v < 256 ^ N.of_nat (ksize k) /\ (k = KF64 -> good v = true).
Fixpoint args_ok (L : list N) (pos : N) (ks : list okind) (vs : list N) : Prop :=
  match ks, vs with
  | [], [] => True
  | k :: ks', v :: vs' => arg_ok L pos k v /\ args_ok L pos ks' vs'
  | _, _ => False end.

Lemma arg_text_plain L pos k v : arg_ok L pos k v ->
  Forall (fun c => plain_char c = true) (arg_text L pos k v) /\ arg_text L pos k v <> [] /\
  (forall c r, arg_text L pos k v = c :: r -> is_ws c = false /\ c <> 58).
Proof.
  intros [Hv Hf].
  assert (Dec : forall n, Forall (fun c => plain_char c = true) (print_dec n) /\ print_dec n <> [] /\
                          (forall c r, print_dec n = c :: r -> is_ws c = false /\ c <> 58)).
  { intros n. split; [apply print_dec_plain|]. split; [apply print_dec_nonempty|].
    intros c r E. pose proof (print_dec_all_digits n) as F. rewrite E in F. inversion F; subst.
    pose proof (dec_char_bounds c H1). split; [apply plain_facts, dec_char_plain; assumption|lia]. }
  assert (Sdec : forall z, Forall (fun c => plain_char c = true) (print_sdec z) /\ print_sdec z <> [] /\
                           (forall c r, print_sdec z = c :: r -> is_ws c = false /\ c <> 58)).
  { intros z. split; [apply print_sdec_plain|]. split; [apply print_sdec_nonempty|].
    intros c r E. unfold print_sdec in E. destruct (z <? 0)%Z.
    + inversion E; subst. split; [reflexivity|discriminate].
    + apply (proj2 (proj2 (Dec _)) c r E). }
  destruct k; cbn [arg_text]; try apply Dec; try apply Sdec.
  - destruct (mem_N (u32 (pos + v)) L); [|apply Sdec].
    split; [apply all_ident_plain, label_name_ident|]. split; [discriminate|].
    intros c r E. unfold label_name in E. inversion E; subst. split; [reflexivity|discriminate].
  - destruct (Horacle v (Hf eq_refl)) as [P [Ne [H58 _]]]. split; [exact P|]. split; [exact Ne|].
    intros c r E. rewrite E in *. inversion P; subst. split; [apply plain_facts; assumption|exact H58].
Qed.

Lemma args_text_facts L pos ks : forall vs, args_ok L pos ks vs ->
  no59 (args_text L pos ks vs) /\ ~ In 10 (args_text L pos ks vs) /\ ~ In 0 (args_text L pos ks vs) /\
  (args_text L pos ks vs = [] \/ ends_solid (args_text L pos ks vs)) /\ stops (args_text L pos ks vs).
Proof.
  induction ks as [|k ks IH]; intros [|v vs] H; cbn [args_ok args_text] in *; try contradiction.
  - repeat split; try (intros []); [left; reflexivity|left; reflexivity].
  - destruct H as [Ha Hr]. destruct (IH vs Hr) as [N59 [N10 [N0 [Sol St]]]].
    destruct (arg_text_plain L pos k v Ha) as [P [Ne _]].
    assert (PP : forall c, In c (arg_text L pos k v) -> plain_char c = true) by (rewrite Forall_forall in P; exact P).
    split; [|split; [|split; [|split]]].
    + apply no59_cons; try discriminate. apply no59_app; [apply plain_no59, P|exact N59].
    + intros [E|E]; [discriminate|]. apply in_app_or in E. destruct E as [E|E]; [|tauto]. specialize (PP _ E). discriminate PP.
    + intros [E|E]; [discriminate|]. apply in_app_or in E. destruct E as [E|E]; [|tauto]. specialize (PP _ E). discriminate PP.
    + right. change (32 :: arg_text L pos k v ++ args_text L pos ks vs) with ((32 :: arg_text L pos k v) ++ args_text L pos ks vs).
      destruct Sol as [->|Sol]; [rewrite app_nil_r|apply ends_solid_app, Sol].
      change (32 :: arg_text L pos k v) with ([32] ++ arg_text L pos k v). apply ends_solid_app, plain_solid; assumption.
    + right. eexists; reflexivity.
Qed.

(* what fmt_operands prints is the operand text, for a comment opcode followed by one `  ; ...` comment *)
Lemma fmt_operand_plain m L pos o idx k v : arg_ok L pos k v -> (k = KU32 -> comment_op o = false) ->
  fmt_operand m L pos o idx k v = 32 :: arg_text L pos k v.
Proof.
  intros _ Hc. destruct k; cbn [fmt_operand arg_text]; try reflexivity.
  - specialize (Hc eq_refl). unfold comment_op in Hc. apply orb_false_iff in Hc. destruct Hc as [Hc H3].
    apply orb_false_iff in Hc. destruct Hc as [H1 H2]. rewrite H1, H2, H3. reflexivity.
  - destruct (mem_N (u32 (pos + v)) L) eqn:Hm.
    + destruct (mem_index _ L 0 Hm) as [j Ej]. unfold lbl_idx. rewrite Ej. reflexivity.
    + rewrite (mem_false_index _ _ Hm). reflexivity.
Qed.
Lemma fmt_operands_plain m L pos o ks : comment_op o = false -> forall vs idx, args_ok L pos ks vs ->
  fmt_operands m L pos o idx ks vs = args_text L pos ks vs.
Proof.
  intros Hc. induction ks as [|k ks IH]; intros [|v vs] idx H; cbn [args_ok] in H; try contradiction; [reflexivity|].
  destruct H as [Ha Hr]. cbn [Asm.fmt_operands args_text]. rewrite fmt_operand_plain by (try exact Ha; intros; exact Hc).
  rewrite IH by exact Hr. reflexivity.
Qed.
Lemma fmt_operands_comment m L pos o v : comment_op o = true ->
  exists junk, fmt_operands m L pos o 0 [KU32] [v] = (32 :: print_dec v) ++ junk /\
               (junk = [] \/ exists s, junk = 32 :: 32 :: 59 :: s).
Proof.
  intros Hc. cbn [Asm.fmt_operands Asm.fmt_operand]. rewrite app_nil_r. change (Nat.eqb 0 0) with true. rewrite !andb_true_r.
  destruct (o =? op_push_str).
  - destruct (nthN (m_strings m) v) as [s|]; [|exists []; rewrite app_nil_r; split; [reflexivity|left; reflexivity]].
    eexists. split; [reflexivity|]. right. eexists. reflexivity.
  - destruct ((o =? op_call) || (o =? op_call_extern)); [|exists []; rewrite app_nil_r; split; [reflexivity|left; reflexivity]].
    destruct (nthN (m_funcs m) v) as [f|]; [|exists []; rewrite app_nil_r; split; [reflexivity|left; reflexivity]].
    destruct (nthN (m_strings m) (fn_name f)) as [s|]; [|exists []; rewrite app_nil_r; split; [reflexivity|left; reflexivity]].
    eexists. split; [reflexivity|]. right. eexists. reflexivity.
Qed.

(* ---------------------------------------------------------------- assembling operands *)
Lemma asm_operand_ok st L k v rest start :
  arg_ok L start k v -> stops rest -> lenN L <= max_disasm_labels ->
  (k = KI32 -> lenN (a_patches st) < max_patches) ->
  asm_operand st k (32 :: arg_text L start k v ++ rest) start =
  inl (upd st (zenc1 L start k v) (patch1 L (a_cur st) start (a_size st) k v), rest).
Proof.
  intros [Hv Hf] Hs HL Hp. rewrite pow256 in Hv.
  destruct k; unfold zenc1, patch1, labelled; cbn [Asm.asm_operand arg_text okind_eqb andb].
  - rewrite parse_unsigned_dec by (try assumption; lia). rewrite emit_upd. reflexivity.
  - rewrite parse_unsigned_dec by (try assumption; lia). rewrite emit_upd. reflexivity.
  - rewrite parse_unsigned_dec by (try assumption; lia). rewrite emit_upd. reflexivity.
  - destruct (mem_N (u32 (start + v)) L) eqn:Hm.
    2:{ (* a raw offset *)
      rewrite skip_ws_sp.
      pose proof (print_sdec_nonempty (to_signed 32 v)) as Ne. pose proof (print_sdec_plain (to_signed 32 v)) as F.
      assert (Hz : (-2147483648 <= to_signed 32 v < 2147483648)%Z).
      { unfold to_signed. change (2 ^ (32 - 1)) with 2147483648. change (2 ^ Z.of_N 32)%Z with 4294967296%Z.
        destruct (N.ltb_spec v 2147483648); lia. }
      assert (Hal : forall c r, print_sdec (to_signed 32 v) = c :: r -> is_alpha_ c = false).
      { intros c r E. unfold print_sdec in E. destruct (to_signed 32 v <? 0)%Z; [inversion E; reflexivity|].
        pose proof (print_dec_all_digits (Z.to_N (to_signed 32 v))) as D. rewrite E in D. inversion D; subst.
        pose proof (dec_char_bounds c H1) as B. unfold is_alpha_.
        replace (65 <=? c) with false by (symmetry; apply N.leb_gt; lia).
        replace (97 <=? c) with false by (symmetry; apply N.leb_gt; lia).
        replace (c =? 95) with false by (symmetry; apply N.eqb_neq; lia). reflexivity. }
      destruct (print_sdec (to_signed 32 v)) as [|c r] eqn:E; [congruence|]. inversion F; subst.
      cbn [app]. rewrite skip_ws_cons by (apply plain_facts; assumption). rewrite (Hal c r eq_refl).
      unfold parse_range, parse_int64. rewrite skip_ws_cons by (apply plain_facts; assumption).
      change (c :: r ++ rest) with ((c :: r) ++ rest). rewrite <- E, strtoll_print_sdec; [|exact Hs|lia].
      destruct (Z.ltb_spec (to_signed 32 v) (-2147483648)); [lia|]. destruct (Z.ltb_spec 2147483647 (to_signed 32 v)); [lia|].
      cbn [orb]. rewrite of_to_signed by lia. rewrite emit_upd. reflexivity. }
    (* a label *)
    rewrite skip_ws_sp. set (nm := label_name (lbl_idx L (u32 (start + v)))).
    assert (Hnm : nm = 76 :: print_dec (lbl_idx L (u32 (start + v)))) by reflexivity.
    rewrite Hnm. cbn [app]. rewrite skip_ws_cons by reflexivity. change (is_alpha_ 76) with true. cbn iota.
    change (76 :: print_dec (lbl_idx L (u32 (start + v))) ++ rest) with (nm ++ rest).
    assert (Hi : lbl_idx L (u32 (start + v)) < 4294967296).
    { pose proof (lbl_idx_bound L (u32 (start + v))). unfold max_disasm_labels in HL. lia. }
    rewrite parse_identifier_app; [|apply label_name_ident|discriminate|apply label_name_len, Hi|apply stops_stops_ident, Hs].
    specialize (Hp eq_refl). unfold add_patch. destruct (N.leb_spec max_patches (lenN (a_patches st))); [lia|].
    unfold set_patches. rewrite emit_upd. unfold upd.
    cbn [a_patches a_mod a_labels a_in_fn a_cur a_rcode a_size]. rewrite app_nil_r. reflexivity.
  - unfold parse_int64. rewrite skip_ws_sp.
    pose proof (print_sdec_nonempty (to_signed 64 v)) as Ne. pose proof (print_sdec_plain (to_signed 64 v)) as F.
    destruct (print_sdec (to_signed 64 v)) as [|c r] eqn:E; [congruence|]. inversion F; subst.
    cbn [app]. rewrite skip_ws_cons by (apply plain_facts; assumption).
    change (c :: r ++ rest) with ((c :: r) ++ rest). rewrite <- E, strtoll_print_sdec; [|exact Hs|].
    + rewrite of_to_signed by lia. rewrite emit_upd. reflexivity.
    + unfold to_signed. change (2 ^ (64 - 1)) with 9223372036854775808. change (2 ^ Z.of_N 64)%Z with 18446744073709551616%Z.
      destruct (N.ltb_spec v 9223372036854775808); lia.
  - destruct (Horacle v (Hf eq_refl)) as [P [Ne [_ Hparse]]]. rewrite skip_ws_sp.
    destruct (print_f64 v) as [|c r] eqn:E; [congruence|]. inversion P; subst. cbn [app].
    rewrite skip_ws_cons by (apply plain_facts; assumption).
    change (c :: r ++ rest) with ((c :: r) ++ rest). rewrite Hparse by exact Hs. rewrite emit_upd. reflexivity.
Qed.

Lemma asm_operands_ok L start ks : forall vs st,
  args_ok L start ks vs -> lenN L <= max_disasm_labels ->
  lenN (a_patches st) + count_i32 ks <= max_patches ->
  asm_operands st ks (args_text L start ks vs) start =
  inl (upd st (zenc L start ks vs) (mk_patches L (a_cur st) start (a_size st) ks vs)).
Proof.
  induction ks as [|k ks IH]; intros [|v vs] st H HL Hp; cbn [args_ok] in H; try contradiction.
  - cbn [Asm.asm_operands zenc mk_patches]. rewrite upd_nil. reflexivity.
  - destruct H as [Ha Hr]. rewrite count_i32_cons in Hp.
    cbn [Asm.asm_operands args_text zenc mk_patches].
    destruct (args_text_facts L start ks vs Hr) as [_ [_ [_ [_ St]]]].
    rewrite (asm_operand_ok st L k v _ start Ha St HL).
    2:{ intros ->. cbn [okind_eqb] in Hp. lia. }
    rewrite IH; [|exact Hr|exact HL|].
    + rewrite upd_upd. unfold upd at 2 3. cbn [a_cur a_size]. rewrite zenc1_len. reflexivity.
    + unfold upd. cbn [a_patches]. rewrite lenN_app. pose proof (patch1_len L (a_cur st) start (a_size st) k v). lia.
Qed.

(* ---------------------------------------------------------------- an instruction line *)
Notation name_bytes := (name_bytes TL).
Notation kinds_of := (kinds_of TL).
Definition instr_line (L : list N) (pos : N) (i : instr) : text :=
  32 :: 32 :: name_bytes (op i) ++ args_text L pos (kinds_of (op i)) (args i).

Lemma kinds_of_T o ks : T o = Some ks -> kinds_of o = ks.
Proof. unfold Asm.kinds_of. fold T. intros ->. reflexivity. Qed.

Lemma name_facts o ks : T o = Some ks -> exists s c r, lookup TL o = Some (s, ks) /\ name_bytes o = B s /\ B s = c :: r /\
  is_alpha_ c = true /\ all_ident (B s) = true /\ lenN (B s) < 64.
Proof.
  intros HT. destruct (table_entry o ks HT) as [s [El En]]. pose proof (name_ok_in _ _ _ (lookup_in _ _ _ El)) as Hn.
  unfold name_ok in Hn. cbn [fst snd] in Hn. rewrite !andb_true_iff in Hn. destruct Hn as [[[Hi Hne] Hlt] Ha].
  destruct (B s) as [|c r] eqn:E; [discriminate Ha|].
  exists s, c, r. unfold Asm.name_bytes. rewrite En, E. repeat split; try assumption.
  apply Nat.ltb_lt in Hlt. unfold lenN. lia.
Qed.

Lemma args_ok_comment L pos vs : args_ok L pos [KU32] vs -> exists v, vs = [v].
Proof. destruct vs as [|v [|w vs]]; cbn [args_ok]; try tauto. intros _. exists v. reflexivity. Qed.

Lemma instr_line_facts L pos i ks : T (op i) = Some ks -> args_ok L pos ks (args i) ->
  no59 (instr_line L pos i) /\ ends_solid (instr_line L pos i) /\ ~ In 10 (instr_line L pos i) /\ ~ In 0 (instr_line L pos i).
Proof.
  intros HT Hok. unfold instr_line. rewrite (kinds_of_T _ _ HT).
  destruct (name_facts _ _ HT) as [s [c [r [El [En [Es [Ha [Hi Hl]]]]]]]]. rewrite En.
  destruct (args_text_facts L pos ks (args i) Hok) as [N59 [N10 [N0 [Sol _]]]].
  pose proof (all_ident_plain _ Hi) as P.
  assert (PP : forall c, In c (B s) -> plain_char c = true) by (rewrite Forall_forall in P; exact P).
  split; [|split; [|split]].
  - apply no59_cons; try discriminate. apply no59_cons; try discriminate. apply no59_app; [apply plain_no59, P|exact N59].
  - change (32 :: 32 :: B s ++ args_text L pos ks (args i)) with ([32; 32] ++ B s ++ args_text L pos ks (args i)).
    apply ends_solid_app. destruct Sol as [->|Sol]; [rewrite app_nil_r|apply ends_solid_app, Sol].
    apply plain_solid; [exact P|rewrite Es; discriminate].
  - intros [E|[E|E]]; try discriminate. apply in_app_or in E. destruct E as [E|E]; [|tauto]. specialize (PP _ E). discriminate PP.
  - intros [E|[E|E]]; try discriminate. apply in_app_or in E. destruct E as [E|E]; [|tauto]. specialize (PP _ E). discriminate PP.
Qed.

(* the printed line is the prepared line plus, possibly, a `  ; ...` comment; preparation removes the comment *)
Lemma instr_printed m L pos i ks : T (op i) = Some ks -> args_ok L pos ks (args i) ->
  exists junk, 32 :: 32 :: name_bytes (op i) ++ fmt_operands m L pos (op i) 0 ks (args i) = instr_line L pos i ++ junk /\
    (junk = [] \/ (comment_op (op i) = true /\ exists v, args i = [v] /\ ks = [KU32] /\
                   (32 :: print_dec v) ++ junk = fmt_operands m L pos (op i) 0 [KU32] [v])) /\
    prep_line (instr_line L pos i ++ junk) = instr_line L pos i.
Proof.
  intros HT Hok. destruct (instr_line_facts L pos i ks HT Hok) as [Hl59 [Hsol _]].
  destruct (comment_op (op i)) eqn:Hc.
  - pose proof (comment_op_kinds _ _ HT Hc) as ->. destruct (args_ok_comment L pos _ Hok) as [v Ev].
    destruct (fmt_operands_comment m L pos (op i) v Hc) as [junk [Ej Hj]].
    exists junk. split; [|split].
    + unfold instr_line. rewrite (kinds_of_T _ _ HT), Ev, Ej. cbn [args_text app arg_text].
      rewrite app_nil_r, <- app_assoc. cbn [app]. reflexivity.
    + right. split; [reflexivity|]. exists v. repeat split; [exact Ev|]. rewrite Ej. reflexivity.
    + destruct Hj as [->|[s' ->]]; [rewrite app_nil_r; apply prep_line_id; [exact Hl59|right; exact Hsol]|].
      apply prep_line_comment; [exact Hl59|right; exact Hsol].
  - exists []. rewrite app_nil_r. split; [|split; [left; reflexivity|apply prep_line_id; [exact Hl59|right; exact Hsol]]].
    unfold instr_line. rewrite (kinds_of_T _ _ HT). rewrite fmt_operands_plain by assumption. reflexivity.
Qed.

Lemma args_text_not_colon L pos ks vs : args_ok L pos ks vs -> starts 58 (skip_ws (args_text L pos ks vs)) = None.
Proof.
  destruct ks as [|k ks], vs as [|v vs]; cbn [args_ok args_text]; try tauto; try reflexivity.
  intros [Ha _]. destruct (arg_text_plain L pos k v Ha) as [_ [Ne Hc]].
  destruct (arg_text L pos k v) as [|c r] eqn:E; [congruence|]. destruct (Hc c r eq_refl) as [Hw H58].
  rewrite skip_ws_sp. cbn [app]. rewrite skip_ws_cons by exact Hw. apply starts_cons_ne, H58.
Qed.

Lemma process_instr st L i ks :
  a_in_fn st = true -> T (op i) = Some ks -> args_ok L (a_size st) ks (args i) -> lenN L <= max_disasm_labels ->
  lenN (a_patches st) + count_i32 ks <= max_patches ->
  process_line st (instr_line L (a_size st) i) =
  inl (upd st (op i :: zenc L (a_size st) ks (args i)) (mk_patches L (a_cur st) (a_size st) (a_size st + 1) ks (args i))).
Proof.
  intros Hin HT Hok HL Hp. unfold instr_line. rewrite (kinds_of_T _ _ HT).
  destruct (name_facts _ _ HT) as [s [c [r [El [En [Es [Ha [Hi Hl]]]]]]]]. rewrite En.
  destruct (alpha_facts c Ha) as [Hw [H59 [H35 [H46 H58]]]].
  destruct (args_text_facts L (a_size st) ks (args i) Hok) as [_ [_ [_ [_ St]]]].
  unfold Asm.process_line. cbv zeta. rewrite !skip_ws_sp.
  assert (Hp1 : forall sz, 64 <= sz -> parse_identifier (B s ++ args_text L (a_size st) ks (args i)) sz =
                                     Some (B s, args_text L (a_size st) ks (args i))).
  { intros sz Hsz. apply parse_identifier_app; [exact Hi|rewrite Es; discriminate|lia|apply stops_stops_ident, St]. }
  rewrite Es. cbn [app]. rewrite skip_ws_cons by exact Hw.
  assert (Hle : line_end (c :: r ++ args_text L (a_size st) ks (args i)) = false).
  { unfold line_end. destruct (N.eqb_spec c 59); [contradiction|]. destruct (N.eqb_spec c 35); [contradiction|]. reflexivity. }
  rewrite Hle. rewrite (starts_cons_ne 46 c _ H46).
  change (c :: r ++ args_text L (a_size st) ks (args i)) with ((c :: r) ++ args_text L (a_size st) ks (args i)). rewrite <- Es.
  rewrite (Hp1 lbl_buf) by (unfold lbl_buf, label_name_size; lia).
  rewrite args_text_not_colon by exact Hok.
  rewrite Hin. cbn [negb]. rewrite (Hp1 mnemonic_buf) by (unfold mnemonic_buf; lia).
  unfold Asm.asm_instruction. rewrite (opcode_by_name_in TL) with (o := op i) (ks := ks).
  2:{ unfold names_ok in Hnames. apply andb_true_iff in Hnames. tauto. }
  2:{ apply lookup_in, El. }
  rewrite emit_upd.
  rewrite (asm_operands_ok L (a_size st) ks (args i) (upd st [op i] [])).
  - rewrite upd_upd. unfold upd at 2 3. cbn [a_cur a_size app]. reflexivity.
  - exact Hok.
  - exact HL.
  - unfold upd. cbn [a_patches]. rewrite app_nil_r. exact Hp.
Qed.

(* ---------------------------------------------------------------- a label line *)
Lemma process_label st idx :
  a_in_fn st = true -> idx < 4294967296 -> lenN (a_labels st) < max_labels ->
  find_label (a_labels st) (label_name idx) (a_cur st) = None ->
  process_line st (label_name idx ++ [58]) = inl (with_label st idx).
Proof.
  intros Hin Hi Hn Hf. unfold Asm.process_line. cbv zeta.
  assert (E : label_name idx ++ [58] = 76 :: (print_dec idx ++ [58])) by reflexivity.
  rewrite E. rewrite skip_ws_cons by reflexivity. change (line_end (76 :: print_dec idx ++ [58])) with false. cbn iota.
  rewrite starts_cons_ne by discriminate. change (76 :: print_dec idx ++ [58]) with (label_name idx ++ [58]).
  rewrite parse_identifier_app; [|apply label_name_ident|discriminate|unfold lbl_buf, label_name_size; apply label_name_len, Hi|reflexivity].
  change (starts 58 (skip_ws [58])) with (Some (@nil byte)). cbn iota. rewrite Hin. cbn [negb].
  unfold add_label. destruct (N.leb_spec max_labels (lenN (a_labels st))); [lia|]. rewrite Hf.
  change (line_end (skip_ws [])) with true. cbn iota. reflexivity.
Qed.

End Line.
