(* Concrete modules used as witnesses by NV.Props.Properties_C11 (definitions only). *)
From Coq Require Import NArith List.
From Coq Require String.
Import String.StringSyntax.
From NV Require Import Base.Bytes Isa.Codec Isa.Asm.
Import ListNotations.
Local Open Scope N_scope.

(* ---- concrete modules (bytes in decimal).  fn = name_idx arity off len locals upv *)
Definition Fe (n a o l lo u : N) : fent := {| fn_name := n; fn_arity := a; fn_off := o; fn_len := l; fn_locals := lo; fn_upv := u |}.
Definition Mo (fl en : N) ss fs c : module := {| m_flags := fl; m_entry := en; m_strings := ss; m_funcs := fs; m_code := c |}.

(* hypotheses satisfiable + the text of the worked example: two functions, a loop with a backward and a forward jump, a
   string shown in a comment, a call, a MATCH_TAG jump to the end of the function *)
Definition ex_module : module :=
  Mo 1 1 [B "add"; B "main"; B "hi there"]
     [Fe 0 2 0 8 2 0; Fe 1 0 8 68 1 0]
     [16; 0; 0; 16; 1; 0; 32; 61;
      1; 0; 0; 0; 0; 0; 0; 0; 0; 17; 0; 0; 16; 0; 0; 1; 3; 0; 0; 0; 0; 0; 0; 0; 42; 58; 16; 0; 0; 0; 4; 2; 0; 0; 0; 164;
      56; 232; 255; 255; 255; 107; 7; 0; 21; 0; 0; 0; 59; 0; 0; 0; 0; 1; 251; 255; 255; 255; 255; 255; 255; 255; 57; 6; 0; 0; 0; 61].
Definition ret1 : list byte := [61].

(* n JMP_FALSE instructions that all jump to the final RET *)
Fixpoint jfs (n : nat) : list byte :=
  match n with O => [61] | S k => 58 :: le_bytes 4 (N.of_nat (5 * S k)) ++ jfs k end.
Definition many_jumps_module : module := Mo 1 0 [B "f"] [Fe 0 0 0 (N.of_nat (5 * 2049 + 1)) 1 0] (jfs 2049).
Definition long_string_module : module := Mo 1 0 [B "f"; repeat 120 4096] [Fe 0 0 0 1 1 0] ret1.
