(* Directive lines and the module-level loop of the assembler on the disassembler's output (proofs for NV.Isa.Asm). *)
From Coq Require Import NArith ZArith List Lia Bool.
From Coq Require String.
Import String.StringSyntax.
From NV Require Import Base.Bytes Isa.Codec Isa.CodecProofs Isa.Asm Isa.AsmDec Isa.AsmLex Isa.AsmLine Isa.AsmFn gen.AsmConsts.
Import ListNotations.
Local Open Scope N_scope.

(* ---------------------------------------------------------------- pure facts *)
Lemma nthN_In {A} (l : list A) : forall i x, nthN l i = Some x -> In x l.
Proof.
  induction l as [|y l IH]; intros i x H; [discriminate|]. cbn [nthN] in H.
  destruct (i =? 0); [inversion H; left; reflexivity|right; eapply IH, H].
Qed.

Lemma find_string_nth l : forall s i k, distinct_strs l = true -> nthN l i = Some s -> find_string l s k = Some (k + i).
Proof.
  induction l as [|x l IH]; intros s i k Hd Hn; [discriminate|].
  cbn [distinct_strs] in Hd. apply andb_true_iff in Hd. destruct Hd as [Hx Hd]. apply negb_true_iff in Hx.
  cbn [nthN] in Hn. cbn [find_string]. destruct (N.eqb_spec i 0) as [->|Hi].
  - inversion Hn; subst. rewrite bytes_eqb_refl. f_equal. lia.
  - destruct (bytes_eqb x s) eqn:E.
    + exfalso. apply bytes_eqb_eq in E. subst x. rewrite <- not_true_iff_false in Hx. apply Hx.
      apply existsb_exists. exists s. split; [eapply nthN_In, Hn|apply bytes_eqb_refl].
    + rewrite (IH s (N.pred i) (N.succ k) Hd Hn). f_equal. lia.
Qed.

Lemma find_string_none l : forall s k, existsb (bytes_eqb s) l = false -> find_string l s k = None.
Proof.
  induction l as [|x l IH]; intros s k H; [reflexivity|]. cbn [existsb] in H. apply orb_false_iff in H. destruct H as [H1 H2].
  cbn [find_string]. destruct (bytes_eqb x s) eqn:E; [|apply IH, H2].
  apply bytes_eqb_eq in E. subst. rewrite bytes_eqb_refl in H1. discriminate.
Qed.


Section Mod.
Variable TL : list (N * (String.string * list okind)).
Variable print_f64 : N -> text.
Variable parse_f64 : text -> option (N * text).
Variable good : N -> bool.
Hypothesis Hnames : names_ok TL = true.
Hypothesis Hcmt : comment_ops_ok TL = true.
Hypothesis Horacle : forall v, good v = true -> f64_text_ok print_f64 parse_f64 v.
Set Default Proof Using "All".
Local Notation "'LL' f" := (f TL print_f64 parse_f64 good Hnames Hcmt Horacle) (at level 10, f at level 9).

Notation process_line := (process_line TL parse_f64).
Notation run := (run TL parse_f64).

(* ---------------------------------------------------------------- .string *)
Definition string_line (s : list byte) : text := B ".string """ ++ escape s ++ [34].

Lemma string_line_prep s : prep_line (string_line s) = string_line s.
Proof.
  unfold prep_line, string_line.
  change (B ".string """ ++ escape s ++ [34]) with (B ".string " ++ 34 :: escape s ++ [34]).
  rewrite cut_false_app by (repeat split; intros H; repeat (destruct H as [H|H]; [discriminate|]); destruct H).
  rewrite cut_false_quote, cut_true_escape. cbn [cut_comment].
  apply rtrim_solid. exists (B ".string " ++ 34 :: escape s), 34. split; [rewrite <- app_assoc; reflexivity|reflexivity].
Qed.

Lemma process_string st s :
  process_line st (string_line s) = inl (set_mod st (fst (add_string (a_mod st) s))).
Proof.
  unfold string_line.
  change (B ".string """ ++ escape s ++ [34]) with (46 :: 115 :: 116 :: 114 :: 105 :: 110 :: 103 :: 32 :: 34 :: (escape s ++ [34])).
  unfold Asm.process_line. cbv zeta. rewrite skip_ws_cons by reflexivity.
  change (line_end (46 :: 115 :: 116 :: 114 :: 105 :: 110 :: 103 :: 32 :: 34 :: escape s ++ [34])) with false. cbn iota.
  change (starts 46 (46 :: 115 :: 116 :: 114 :: 105 :: 110 :: 103 :: 32 :: 34 :: escape s ++ [34]))
    with (Some (115 :: 116 :: 114 :: 105 :: 110 :: 103 :: 32 :: 34 :: escape s ++ [34])). cbn iota.
  change (115 :: 116 :: 114 :: 105 :: 110 :: 103 :: 32 :: 34 :: escape s ++ [34]) with (B "string" ++ 32 :: 34 :: escape s ++ [34]).
  rewrite parse_identifier_app; [|reflexivity|discriminate|reflexivity|reflexivity].
  unfold do_directive. change (bytes_eqb (B "string") (B "string")) with true. cbn iota.
  unfold parse_quoted_string. rewrite skip_ws_sp, skip_ws_cons by reflexivity.
  change (starts 34 (34 :: escape s ++ [34])) with (Some (escape s ++ [34])). cbn iota.
  rewrite quoted_escape; [reflexivity| |rewrite app_length; cbn [length]; lia].
  rewrite N.add_0_l, !lenN_cons, lenN_app. pose proof (escape_len_ge s). lia.
Qed.

(* ---------------------------------------------------------------- blank, .entry, .end *)
Lemma process_blank st : process_line st (prep_line []) = inl st.
Proof. reflexivity. Qed.

Definition entry_line (v : N) : text := B ".entry " ++ print_dec v.
Lemma dec_line_facts pre n : Forall (fun c => plain_char c = true \/ c = 32) pre -> no59 (pre ++ print_dec n) /\ ends_solid (pre ++ print_dec n) /\
  ~ In 10 (pre ++ print_dec n) /\ ~ In 0 (pre ++ print_dec n).
Proof.
  intros Hp. pose proof (print_dec_plain n) as P. rewrite Forall_forall in Hp, P.
  assert (G : forall c, In c (pre ++ print_dec n) -> plain_char c = true \/ c = 32).
  { intros c H. apply in_app_or in H. destruct H as [H|H]; [apply Hp, H|left; apply P, H]. }
  split; [|split; [|split]].
  - repeat split; intros H; destruct (G _ H) as [E|E]; discriminate E.
  - apply ends_solid_app, plain_solid; [rewrite Forall_forall; exact P|apply print_dec_nonempty].
  - intros H; destruct (G _ H) as [E|E]; discriminate E.
  - intros H; destruct (G _ H) as [E|E]; discriminate E.
Qed.

Lemma process_entry st v : v < 4294967296 ->
  process_line st (prep_line (entry_line v)) =
  inl (set_mod st {| m_flags := N.lor (m_flags (a_mod st)) flag_has_main; m_entry := v; m_strings := m_strings (a_mod st);
                     m_funcs := m_funcs (a_mod st); m_code := m_code (a_mod st) |}).
Proof.
  intros Hv. unfold entry_line.
  destruct (dec_line_facts (B ".entry ") v) as [H59 [Hs _]].
  { repeat (constructor; [first [left; reflexivity | right; reflexivity]|]). constructor. }
  rewrite prep_line_id by (try exact H59; right; exact Hs).
  change (B ".entry " ++ print_dec v) with (46 :: 101 :: 110 :: 116 :: 114 :: 121 :: 32 :: print_dec v).
  unfold Asm.process_line. cbv zeta. rewrite skip_ws_cons by reflexivity.
  change (line_end (46 :: 101 :: 110 :: 116 :: 114 :: 121 :: 32 :: print_dec v)) with false. cbn iota.
  change (starts 46 (46 :: 101 :: 110 :: 116 :: 114 :: 121 :: 32 :: print_dec v)) with (Some (101 :: 110 :: 116 :: 114 :: 121 :: 32 :: print_dec v)).
  cbn iota. change (101 :: 110 :: 116 :: 114 :: 121 :: 32 :: print_dec v) with (B "entry" ++ 32 :: print_dec v).
  rewrite parse_identifier_app; [|reflexivity|discriminate|reflexivity|reflexivity].
  unfold do_directive. change (bytes_eqb (B "entry") (B "string")) with false. change (bytes_eqb (B "entry") (B "function")) with false.
  change (bytes_eqb (B "entry") (B "end")) with false. change (bytes_eqb (B "entry") (B "entry")) with true. cbn iota.
  rewrite <- (app_nil_r (print_dec v)) at 1. change (32 :: print_dec v ++ []) with (32 :: print_dec v ++ []).
  rewrite parse_unsigned_dec; [reflexivity|left; reflexivity|lia|lia].
Qed.

Lemma process_end st : a_in_fn st = true ->
  process_line st (prep_line (B ".end")) =
  match resolve (a_patches st) (a_labels st) (a_cur st) (rev (a_rcode st)) with
  | None => inr asm_err_undefined_label
  | Some code =>
      inl {| a_mod := {| m_flags := m_flags (a_mod st); m_entry := m_entry (a_mod st); m_strings := m_strings (a_mod st);
                         m_funcs := set_fn_code (m_funcs (a_mod st)) (a_cur st) (lenN (m_code (a_mod st))) (a_size st);
                         m_code := m_code (a_mod st) ++ code |};
             a_labels := []; a_patches := filter (fun p => negb (p_fn p =? a_cur st)) (a_patches st);
             a_in_fn := false; a_cur := a_cur st; a_rcode := a_rcode st; a_size := a_size st |}
  end.
Proof.
  intros Hin. change (prep_line (B ".end")) with (B ".end").
  unfold Asm.process_line. cbv zeta. change (skip_ws (B ".end")) with (B ".end"). change (line_end (B ".end")) with false. cbn iota.
  change (starts 46 (B ".end")) with (Some (B "end")). cbn iota.
  change (parse_identifier (B "end") directive_buf) with (Some (B "end", @nil byte)). cbn iota.
  unfold do_directive. change (bytes_eqb (B "end") (B "string")) with false. change (bytes_eqb (B "end") (B "function")) with false.
  change (bytes_eqb (B "end") (B "end")) with true. cbn iota. rewrite Hin. cbn [negb]. reflexivity.
Qed.

(* ---------------------------------------------------------------- .function *)
Definition function_line (name : text) (f : fent) : text :=
  B ".function " ++ name ++ 32 :: print_dec (fn_arity f) ++ 32 :: print_dec (fn_locals f) ++ 32 :: print_dec (fn_upv f).

Lemma function_line_facts name f : all_ident name = true ->
  no59 (function_line name f) /\ ends_solid (function_line name f) /\ ~ In 10 (function_line name f) /\ ~ In 0 (function_line name f).
Proof.
  intros Hid. unfold function_line.
  replace (B ".function " ++ name ++ 32 :: print_dec (fn_arity f) ++ 32 :: print_dec (fn_locals f) ++ 32 :: print_dec (fn_upv f))
    with ((B ".function " ++ name ++ 32 :: print_dec (fn_arity f) ++ 32 :: print_dec (fn_locals f) ++ [32]) ++ print_dec (fn_upv f)).
  2:{ rewrite <- !app_assoc. cbn [app]. rewrite <- !app_assoc. cbn [app]. rewrite <- !app_assoc. reflexivity. }
  apply dec_line_facts.
  apply Forall_app. split; [repeat (constructor; [first [left; reflexivity | right; reflexivity]|]); constructor|].
  apply Forall_app. split; [eapply Forall_impl; [|apply all_ident_plain, Hid]; intros c Hc; left; exact Hc|].
  constructor; [right; reflexivity|].
  apply Forall_app. split; [eapply Forall_impl; [|apply print_dec_plain]; intros c Hc; left; exact Hc|].
  constructor; [right; reflexivity|].
  apply Forall_app. split; [eapply Forall_impl; [|apply print_dec_plain]; intros c Hc; left; exact Hc|].
  constructor; [right; reflexivity|constructor].
Qed.

Lemma process_function st name f ni : a_in_fn st = false ->
  all_ident name = true -> name <> [] -> lenN name < fname_buf ->
  fn_arity f < 65536 -> fn_locals f < 65536 -> fn_upv f < 65536 ->
  add_string (a_mod st) name = (a_mod st, ni) ->
  process_line st (prep_line (function_line name f)) =
  inl {| a_mod := {| m_flags := m_flags (a_mod st); m_entry := m_entry (a_mod st); m_strings := m_strings (a_mod st);
                     m_funcs := m_funcs (a_mod st) ++ [{| fn_name := ni; fn_arity := fn_arity f; fn_off := 0; fn_len := 0;
                                                          fn_locals := fn_locals f; fn_upv := fn_upv f |}];
                     m_code := m_code (a_mod st) |};
         a_labels := a_labels st; a_patches := a_patches st; a_in_fn := true; a_cur := lenN (m_funcs (a_mod st));
         a_rcode := []; a_size := 0 |}.
Proof.
  intros Hin Hid Hne Hlen Ha Hl Hu Hadd.
  destruct (function_line_facts name f Hid) as [H59 [Hs _]].
  rewrite prep_line_id by (try exact H59; right; exact Hs).
  unfold function_line.
  set (tail := 32 :: print_dec (fn_arity f) ++ 32 :: print_dec (fn_locals f) ++ 32 :: print_dec (fn_upv f)).
  change (B ".function " ++ name ++ tail) with (46 :: 102 :: 117 :: 110 :: 99 :: 116 :: 105 :: 111 :: 110 :: 32 :: (name ++ tail)).
  unfold Asm.process_line. cbv zeta. rewrite skip_ws_cons by reflexivity.
  change (line_end (46 :: 102 :: 117 :: 110 :: 99 :: 116 :: 105 :: 111 :: 110 :: 32 :: name ++ tail)) with false. cbn iota.
  change (starts 46 (46 :: 102 :: 117 :: 110 :: 99 :: 116 :: 105 :: 111 :: 110 :: 32 :: name ++ tail))
    with (Some (102 :: 117 :: 110 :: 99 :: 116 :: 105 :: 111 :: 110 :: 32 :: name ++ tail)). cbn iota.
  change (102 :: 117 :: 110 :: 99 :: 116 :: 105 :: 111 :: 110 :: 32 :: name ++ tail) with (B "function" ++ 32 :: name ++ tail).
  rewrite parse_identifier_app; [|reflexivity|discriminate|reflexivity|reflexivity].
  unfold do_directive. change (bytes_eqb (B "function") (B "string")) with false. change (bytes_eqb (B "function") (B "function")) with true.
  cbn iota. rewrite Hin. rewrite parse_identifier_sp.
  rewrite parse_identifier_app; [|exact Hid|exact Hne|exact Hlen|reflexivity].
  unfold tail.
  rewrite parse_unsigned_dec; [|right; eexists; reflexivity|lia|lia].
  rewrite parse_unsigned_dec; [|right; eexists; reflexivity|lia|lia].
  rewrite <- (app_nil_r (print_dec (fn_upv f))). rewrite parse_unsigned_dec; [|left; reflexivity|lia|lia].
  rewrite Hadd. unfold u16. rewrite !N.mod_small by assumption. reflexivity.
Qed.

End Mod.
