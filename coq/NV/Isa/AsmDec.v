(* Decimal printing and strtoll parsing of the text form: round trips (proofs for NV.Isa.Asm). *)
From Coq Require Import NArith ZArith List Lia Bool.
From NV Require Import Base.Bytes Isa.Codec Isa.Asm.
Import ListNotations.
Local Open Scope N_scope.

Fixpoint value_le (ds : list N) : N := match ds with [] => 0 | d :: r => d + 10 * value_le r end.
Fixpoint horner (acc : N) (ds : list N) : N := match ds with [] => acc | d :: r => horner (acc * 10 + d) r end.

Lemma le_digits_S f n : le_digits (S f) n = (n mod 10) :: (if n / 10 =? 0 then [] else le_digits f (n / 10)).
Proof. reflexivity. Qed.

Lemma le_digits_value f : forall n, n < 2 ^ N.of_nat f -> value_le (le_digits (S f) n) = n.
Proof.
  induction f as [|f IH]; intros n H.
  - simpl in H. assert (n = 0) by lia. subst. reflexivity.
  - rewrite le_digits_S. destruct (N.eqb_spec (n / 10) 0) as [E|E].
    + cbn [value_le]. pose proof (N.div_mod n 10). lia.
    + cbn [value_le]. rewrite IH.
      * pose proof (N.div_mod n 10). lia.
      * rewrite Nat2N.inj_succ, N.pow_succ_r' in H.
        apply N.div_lt_upper_bound; lia.
Qed.

Lemma le_digits_lt10 f : forall n, Forall (fun d => d < 10) (le_digits f n).
Proof.
  induction f as [|f IH]; intros n; [constructor|rewrite le_digits_S].
  constructor; [apply N.mod_lt; lia|].
  destruct (n / 10 =? 0); [constructor|apply IH].
Qed.

Lemma le_digits_nonempty f n : le_digits (S f) n <> [].
Proof. rewrite le_digits_S. discriminate. Qed.

(* the most significant digit is not 0 unless the number is 0 *)
Lemma le_digits_last f : forall n, n < 2 ^ N.of_nat f -> n <> 0 -> last (le_digits (S f) n) 0 <> 0.
Proof.
  induction f as [|f IH]; intros n H Hn.
  - simpl in H. lia.
  - rewrite le_digits_S. destruct (N.eqb_spec (n / 10) 0) as [E|E].
    + cbn [last]. apply N.div_small_iff in E; [|lia]. rewrite N.mod_small by lia. exact Hn.
    + assert (Hd : n / 10 < 2 ^ N.of_nat f).
      { rewrite Nat2N.inj_succ, N.pow_succ_r' in H. apply N.div_lt_upper_bound; lia. }
      specialize (IH (n / 10) Hd E).
      remember (le_digits (S f) (n / 10)) as l eqn:El.
      destruct l as [|x l']; [exfalso; symmetry in El; revert El; apply le_digits_nonempty|].
      exact IH.
Qed.

Lemma size_bound n : n < 2 ^ N.of_nat (N.to_nat (N.size n)).
Proof. rewrite N2Nat.id. apply N.size_gt. Qed.

Definition digits_of (n : N) : list N := rev (le_digits (S (N.to_nat (N.size n))) n).   (* most significant first *)
Lemma print_dec_digits n : print_dec n = map (fun d => 48 + d) (digits_of n).
Proof. reflexivity. Qed.

Lemma horner_app acc a b : horner acc (a ++ b) = horner (horner acc a) b.
Proof. revert acc; induction a as [|x a IH]; intros acc; simpl; [reflexivity|apply IH]. Qed.
Lemma horner_rev ds : horner 0 (rev ds) = value_le ds.
Proof.
  induction ds as [|d ds IH]; [reflexivity|].
  cbn [rev value_le]. rewrite horner_app, IH. cbn [horner]. lia.
Qed.
Lemma horner_digits n : horner 0 (digits_of n) = n.
Proof. unfold digits_of. rewrite horner_rev. apply le_digits_value, size_bound. Qed.
Lemma digits_lt10 n : Forall (fun d => d < 10) (digits_of n).
Proof. unfold digits_of. apply Forall_rev, le_digits_lt10. Qed.
Lemma digits_nonempty n : digits_of n <> [].
Proof.
  unfold digits_of. intros H. apply (f_equal (@rev N)) in H. rewrite rev_involutive in H.
  revert H. apply le_digits_nonempty.
Qed.
Lemma hd_rev_last (l : list N) d : hd d (rev l) = last l d.
Proof.
  induction l as [|x l IH]; [reflexivity|]. destruct l as [|y l']; [reflexivity|].
  change (last (x :: y :: l') d) with (last (y :: l') d). rewrite <- IH.
  change (rev (x :: y :: l')) with ((rev l' ++ [y]) ++ [x]). change (rev (y :: l')) with (rev l' ++ [y]).
  destruct (rev l' ++ [y]) eqn:E; [destruct (rev l'); discriminate|reflexivity].
Qed.
Lemma digits_head n : n <> 0 -> hd 0 (digits_of n) <> 0.
Proof.
  intros Hn. unfold digits_of.
  pose proof (le_digits_last _ n (size_bound n) Hn) as H.
  remember (le_digits (S (N.to_nat (N.size n))) n) as l.
  rewrite hd_rev_last. exact H.
Qed.
Lemma digits_zero : digits_of 0 = [0].
Proof. reflexivity. Qed.

(* character-level facts about the printed form *)
Definition is_dec_char (c : byte) : bool := (48 <=? c) && (c <=? 57).
Lemma digit_val_dec d : d < 10 -> digit_val (48 + d) = Some d.
Proof.
  intros H. unfold digit_val.
  destruct (N.leb_spec 48 (48 + d)); [|lia]. destruct (N.leb_spec (48 + d) 57); [|lia]. cbn [andb]. f_equal. lia.
Qed.

Lemma parse_num_digits base ds : forall acc rest, 10 <= base ->
  Forall (fun d => d < 10) ds ->
  parse_num base (map (fun d => 48 + d) ds ++ rest) acc = parse_num base rest (fold_left (fun a d => a * base + d) ds acc).
Proof.
  induction ds as [|d ds IH]; intros acc rest Hb H; [reflexivity|].
  inversion H as [|? ? Hd Hr]; subst. cbn [map app parse_num fold_left].
  rewrite digit_val_dec by exact Hd. destruct (N.ltb_spec d base); [|lia]. apply IH; assumption.
Qed.
Lemma fold_horner ds : forall acc, fold_left (fun a d => a * 10 + d) ds acc = horner acc ds.
Proof. induction ds as [|d ds IH]; intros acc; simpl; [reflexivity|apply IH]. Qed.

(* a rest that cannot continue a number in any base strtoll may pick: empty or beginning with a blank *)
Definition stops (rest : text) : Prop := rest = [] \/ exists r, rest = 32 :: r.
Lemma stops_parse base rest acc : stops rest -> parse_num base rest acc = (acc, rest).
Proof. intros [->|[r ->]]; reflexivity. Qed.

Theorem parse_num_print_dec n rest : stops rest -> parse_num 10 (print_dec n ++ rest) 0 = (n, rest).
Proof.
  intros Hs. rewrite print_dec_digits, parse_num_digits by (try lia; apply digits_lt10).
  rewrite fold_horner, horner_digits. apply stops_parse, Hs.
Qed.

Lemma print_dec_all_digits n : Forall (fun c => is_dec_char c = true) (print_dec n).
Proof.
  rewrite print_dec_digits. apply Forall_forall. intros c Hc. apply in_map_iff in Hc. destruct Hc as [d [<- Hd]].
  pose proof (digits_lt10 n) as F. rewrite Forall_forall in F. specialize (F d Hd).
  unfold is_dec_char. destruct (N.leb_spec 48 (48 + d)); [|lia]. destruct (N.leb_spec (48 + d) 57); [reflexivity|lia].
Qed.
Lemma print_dec_nonempty n : print_dec n <> [].
Proof. rewrite print_dec_digits. intros H. apply map_eq_nil in H. revert H. apply digits_nonempty. Qed.

Theorem print_dec_inj a b : print_dec a = print_dec b -> a = b.
Proof.
  intros H. pose proof (parse_num_print_dec a [] (or_introl eq_refl)) as Ha.
  pose proof (parse_num_print_dec b [] (or_introl eq_refl)) as Hb.
  rewrite H in Ha. rewrite Ha in Hb. congruence.
Qed.

(* the shape of the first character decides which base strtoll chooses *)
Lemma print_dec_shape n :
  (n = 0 /\ print_dec n = [48]) \/
  (n <> 0 /\ exists d r, print_dec n = (48 + d) :: r /\ 1 <= d < 10).
Proof.
  destruct (N.eq_dec n 0) as [->|Hn]; [left; split; reflexivity|right; split; [exact Hn|]].
  rewrite print_dec_digits. pose proof (digits_head n Hn) as Hh. pose proof (digits_lt10 n) as F.
  destruct (digits_of n) as [|d r] eqn:E; [exfalso; revert E; apply digits_nonempty|].
  inversion F; subst. exists d, (map (fun d => 48 + d) r). split; [reflexivity|]. simpl in Hh. lia.
Qed.

Lemma drop_space_digit c r : is_dec_char c = true -> drop_space (c :: r) = c :: r.
Proof.
  unfold is_dec_char, is_space. intros H. apply andb_true_iff in H. destruct H as [H1 H2].
  apply N.leb_le in H1. apply N.leb_le in H2. cbn [drop_space]. unfold is_space.
  destruct (N.eqb_spec c 32); [lia|]. destruct (N.leb_spec 9 c); destruct (N.leb_spec c 13); simpl; try reflexivity; lia.
Qed.

Lemma dec_char_bounds c : is_dec_char c = true -> 48 <= c <= 57.
Proof. unfold is_dec_char. intros H. apply andb_true_iff in H. destruct H as [H1 H2]. apply N.leb_le in H1. apply N.leb_le in H2. lia. Qed.
Lemma valid_digit_dec c : is_dec_char c = true -> valid_digit 10 c = true.
Proof.
  intros H. pose proof (dec_char_bounds c H). unfold valid_digit. replace c with (48 + (c - 48)) by lia.
  rewrite digit_val_dec by lia. apply N.ltb_lt. lia.
Qed.

(* strtoll on text that begins with a decimal digit other than '0': base 10, no sign *)
Lemma strtoll_dec_shape c r : is_dec_char c = true -> c <> 48 ->
  strtoll (c :: r) = let '(v, rest) := parse_num 10 (c :: r) 0 in
                     if v <? 9223372036854775808 then Some (Z.of_N v, rest) else None.
Proof.
  intros Hc H0. pose proof (dec_char_bounds c Hc) as B.
  assert (E45 : (c =? 45) = false) by (apply N.eqb_neq; lia).
  assert (E43 : (c =? 43) = false) by (apply N.eqb_neq; lia).
  assert (E48 : (c =? 48) = false) by (apply N.eqb_neq; lia).
  unfold strtoll. rewrite drop_space_digit by exact Hc. cbv zeta. rewrite E45, E43. cbn [orb].
  destruct r as [|x [|h r']]; repeat (rewrite ?E48; cbn [andb skipn]). all: (pose proof (valid_digit_dec c Hc) as V; rewrite V; reflexivity).
Qed.
Lemma strtoll_neg_shape c r : is_dec_char c = true -> c <> 48 ->
  strtoll (45 :: c :: r) = let '(v, rest) := parse_num 10 (c :: r) 0 in
                           if v <=? 9223372036854775808 then Some ((- Z.of_N v)%Z, rest) else None.
Proof.
  intros Hc H0. pose proof (dec_char_bounds c Hc) as B.
  assert (E48 : (c =? 48) = false) by (apply N.eqb_neq; lia).
  unfold strtoll. change (drop_space (45 :: c :: r)) with (45 :: c :: r). cbv zeta.
  cbn [N.eqb Pos.eqb orb].
  destruct r as [|x [|h r']]; repeat (rewrite ?E48; cbn [andb skipn]).
  all: (pose proof (valid_digit_dec c Hc) as V; rewrite V; reflexivity).
Qed.

(* strtoll on a printed unsigned number *)
Theorem strtoll_print_dec n rest : stops rest -> n < 9223372036854775808 ->
  strtoll (print_dec n ++ rest) = Some (Z.of_N n, rest).
Proof.
  intros Hs Hn. pose proof (parse_num_print_dec n rest Hs) as P.
  destruct (print_dec_shape n) as [[-> E]|[Hn0 [d [r [E Hd]]]]].
  - rewrite E in *. cbn [app].
    destruct Hs as [->|[r' ->]]; [reflexivity|]. destruct r' as [|h r'']; reflexivity.
  - rewrite E in *. cbn [app] in *. rewrite strtoll_dec_shape.
    + rewrite P. destruct (N.ltb_spec n 9223372036854775808); [reflexivity|lia].
    + unfold is_dec_char. destruct (N.leb_spec 48 (48 + d)); [|lia]. destruct (N.leb_spec (48 + d) 57); [reflexivity|lia].
    + lia.
Qed.

Theorem strtoll_print_sdec z rest : stops rest -> (-9223372036854775808 <= z < 9223372036854775808)%Z ->
  strtoll (print_sdec z ++ rest) = Some (z, rest).
Proof.
  intros Hs Hz. unfold print_sdec. destruct (Z.ltb_spec z 0) as [Hneg|Hpos].
  - set (n := Z.abs_N z). assert (Hn : n <> 0) by (unfold n; lia).
    assert (Hn2 : n <= 9223372036854775808) by (unfold n; lia).
    pose proof (parse_num_print_dec n rest Hs) as P.
    destruct (print_dec_shape n) as [[E _]|[_ [d [r [E Hd]]]]]; [congruence|].
    cbn [app]. rewrite E in *. cbn [app] in *. rewrite strtoll_neg_shape.
    + rewrite P. destruct (N.leb_spec n 9223372036854775808); [|lia]. f_equal. f_equal. unfold n. lia.
    + unfold is_dec_char. destruct (N.leb_spec 48 (48 + d)); [|lia]. destruct (N.leb_spec (48 + d) 57); [reflexivity|lia].
    + lia.
  - rewrite strtoll_print_dec by (try exact Hs; lia). f_equal. f_equal. lia.
Qed.

(* the corollaries the property file quotes: parse (print n) = n *)
Corollary parse_print_dec n : parse_num 10 (print_dec n) 0 = (n, []).
Proof. rewrite <- (app_nil_r (print_dec n)). apply parse_num_print_dec. left; reflexivity. Qed.
Corollary strtoll_print_sdec_exact z : (-9223372036854775808 <= z < 9223372036854775808)%Z ->
  strtoll (print_sdec z) = Some (z, []).
Proof. intros H. rewrite <- (app_nil_r (print_sdec z)). apply strtoll_print_sdec; [left; reflexivity|exact H]. Qed.

(* no printed number contains a byte that the line preparation or the line splitter reacts to *)
Definition plain_char (c : byte) : bool :=
  negb ((c =? 0) || (c =? 10) || (c =? 59) || (c =? 35) || (c =? 32) || (c =? 9) || (c =? 13) || (c =? 34)).
Lemma dec_char_plain c : is_dec_char c = true -> plain_char c = true.
Proof.
  unfold is_dec_char, plain_char. intros H. apply andb_true_iff in H. destruct H as [H1 H2].
  apply N.leb_le in H1. apply N.leb_le in H2.
  repeat match goal with |- context [?a =? ?b] => destruct (N.eqb_spec a b); [lia|] end. reflexivity.
Qed.
Lemma print_dec_plain n : Forall (fun c => plain_char c = true) (print_dec n).
Proof. eapply Forall_impl; [|apply print_dec_all_digits]. intros c. apply dec_char_plain. Qed.
Lemma print_sdec_plain z : Forall (fun c => plain_char c = true) (print_sdec z).
Proof.
  unfold print_sdec. destruct (z <? 0)%Z; [constructor; [reflexivity|]|]; apply print_dec_plain.
Qed.
Lemma print_sdec_nonempty z : print_sdec z <> [].
Proof. unfold print_sdec. destruct (z <? 0)%Z; [discriminate|apply print_dec_nonempty]. Qed.
