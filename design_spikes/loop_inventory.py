#!/usr/bin/env python3
"""Design-time prototype (NOT framework code): inventory of token-cursor loops and
self-recursive parse functions in /repo/src/parser.c from clang's JSON AST.
Usage: clang -std=c99 -Isrc -D_GNU_SOURCE -fsyntax-only -Xclang -ast-dump=json src/parser.c > p.json
       python3 loop_inventory.py p.json
Result on the pinned tree: 38 functions, 31 cursor loops, 2 flagged (both in parse_prefix_op)."""
import json, sys, collections
d = json.load(open(sys.argv[1]))
fns = [x for x in d['inner'] if x.get('kind') == 'FunctionDecl'
       and any(c.get('kind') == 'CompoundStmt' for c in x.get('inner', []))
       and x.get('loc', {}).get('includedFrom') is None]
def name(m):
    if m.get('kind') == 'DeclRefExpr': return m.get('referencedDecl', {}).get('name')
    for c in m.get('inner', []) or []:
        r = name(c)
        if r: return r
def calls(n, acc):
    if n.get('kind') == 'CallExpr': acc.append(name(n['inner'][0]))
    for c in n.get('inner', []) or []: calls(c, acc)
    return acc
def kinds(n, acc):
    acc.append(n.get('kind'))
    for c in n.get('inner', []) or []: kinds(c, acc)
    return acc
def loops(n, out):
    if n.get('kind') in ('WhileStmt', 'ForStmt', 'DoStmt'): out.append(n)
    for c in n.get('inner', []) or []: loops(c, out)
    return out
tot = 0; flagged = []; cg = collections.defaultdict(set)
for f in fns:
    for c in calls(f, []):
        if c: cg[f['name']].add(c)
    for l in loops(f, []):
        body = l['inner'][-1]; cond = [c for c in l['inner'][:-1] if c]
        cc = [c for x in cond for c in calls(x, [])]
        if 'match' not in cc and 'current_token' not in cc: continue
        tot += 1
        bc = calls(body, []); bk = kinds(body, [])
        parsers = [c for c in bc if c and c.startswith('parse_')]
        if parsers and 'advance' not in bc and not ({'BreakStmt', 'ReturnStmt', 'GotoStmt'} & set(bk)):
            flagged.append((f['name'], parsers))
print("functions", len(fns), "cursor loops", tot, "flagged", len(flagged))
for x in flagged: print("  ", x)
def reach(a):
    seen = set(); st = [a]
    while st:
        x = st.pop()
        for y in cg.get(x, ()):
            if y not in seen: seen.add(y); st.append(y)
    return seen
print("self-recursive parse fns:", [n for n in cg if n.startswith('parse_') and n in reach(n)])
