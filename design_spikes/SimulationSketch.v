(* Design spike: "code at pc" simulation over BYTE-addressed code, using the codec round trip. *)
From Coq Require Import NArith ZArith List Lia Bool.
Import ListNotations.
From Spk Require Import CodecRoundTrip.
Local Open Scope N_scope.

(* a three-opcode table: 1 = PUSH_I64 (one 8-byte operand), 16 = LOAD_LOCAL (u16), 32 = ADD *)
Definition T : table_t := fun o =>
  if N.eqb o 1 then Some [KI64] else if N.eqb o 16 then Some [KU16] else if N.eqb o 32 then Some [] else None.

Definition wrap64 (z : Z) : Z := ((z + 2^63) mod 2^64 - 2^63)%Z.
Definition to_u64 (z : Z) : N := Z.to_N (z mod 2^64)%Z.
Definition of_u64 (n : N) : Z := wrap64 (Z.of_N n).

Inductive expr := Num (z : Z) | Var (k : nat) | Add (a b : expr).
Fixpoint eval (env : list Z) (e : expr) : option Z :=
  match e with
  | Num z => Some (wrap64 z)
  | Var k => nth_error env k
  | Add a b => match eval env a, eval env b with Some x, Some y => Some (wrap64 (x + y)) | _, _ => None end
  end.

Definition I_push z := {| op := 1; args := [to_u64 z] |}.
Definition I_load k := {| op := 16; args := [N.of_nat k] |}.
Definition I_add    := {| op := 32; args := [] |}.
Fixpoint comp (e : expr) : list instr :=
  match e with
  | Num z => [I_push z]
  | Var k => [I_load k]
  | Add a b => comp a ++ comp b ++ [I_add]
  end.

Definition enc1 (i : instr) : list byte := match encode T i with Some b => b | None => [] end.
Definition enc_all (is : list instr) : list byte := concat (map enc1 is).
Arguments enc1 : simpl never.
Lemma enc_all_one i : enc_all [i] = enc1 i. Proof. unfold enc_all; cbn [map concat]. apply app_nil_r. Qed.
Lemma enc_all_app a b : enc_all (a ++ b) = enc_all a ++ enc_all b. Proof. unfold enc_all. rewrite map_app, concat_app. reflexivity. Qed.

(* machine: locals are separate from the operand stack in this sketch *)
Record st := { ip : nat; stk : list Z }.
Definition step (code : list byte) (loc : list Z) (s : st) : option st :=
  match decode T (skipn (ip s) code) with
  | Some (i, n) =>
      if N.eqb (op i) 1 then match args i with [v] => Some {| ip := ip s + n; stk := of_u64 v :: stk s |} | _ => None end
      else if N.eqb (op i) 16 then match args i with [k] => match nth_error loc (N.to_nat k) with
                                                         | Some v => Some {| ip := ip s + n; stk := v :: stk s |} | None => None end | _ => None end
      else if N.eqb (op i) 32 then match stk s with y :: x :: r => Some {| ip := ip s + n; stk := wrap64 (x + y) :: r |} | _ => None end
      else None
  | None => None
  end.
Fixpoint run (n : nat) code loc s : option st :=
  match n with O => Some s | S n' => match step code loc s with Some s' => run n' code loc s' | None => None end end.

Definition wfi (i : instr) := forall ks, T (op i) = Some ks -> wf_args ks (args i).
Lemma enc1_ok i : wfi i -> (exists ks, T (op i) = Some ks) -> encode T i = Some (enc1 i).
Proof.
  intros Hw [ks Hk]. unfold enc1, encode. rewrite Hk.
  specialize (Hw ks Hk). clear Hk. revert Hw. generalize (args i). induction ks as [|k ks IH]; intros [|v vs] H; simpl in *; try contradiction; auto.
  destruct H as [_ H]. specialize (IH vs H). destruct (enc_args ks vs); [reflexivity|discriminate].
Qed.

(* fetch_at: the bridge from bytes to instruction lists *)
Lemma fetch_at pre i rest : wfi i -> (exists ks, T (op i) = Some ks) ->
  decode T (skipn (length pre) (pre ++ enc1 i ++ rest)) = Some (i, length (enc1 i)).
Proof.
  intros Hw Hk. rewrite skipn_app, skipn_all, Nat.sub_diag. simpl.
  apply decode_encode; [exact Hw | apply enc1_ok; assumption].
Qed.

Lemma u64_range z : to_u64 z < 256 ^ N.of_nat 8.
Proof. unfold to_u64. change (256 ^ N.of_nat 8) with (Z.to_N (2^64)). apply Z2N.inj_lt; try lia; apply Z.mod_pos_bound; lia. Qed.
Lemma of_to z : of_u64 (to_u64 z) = wrap64 z.
Proof. unfold of_u64, to_u64. rewrite Z2N.id by (apply Z.mod_pos_bound; lia). unfold wrap64.
  f_equal. rewrite Zplus_mod_idemp_l. reflexivity. Qed.

Fixpoint closed (nloc : nat) (e : expr) : Prop :=
  match e with Num _ => True | Var k => (k < nloc)%nat /\ (N.of_nat k < 65536) | Add a b => closed nloc a /\ closed nloc b end.

Lemma run_app n1 n2 code loc s s1 s2 : run n1 code loc s = Some s1 -> run n2 code loc s1 = Some s2 -> run (n1 + n2) code loc s = Some s2.
Proof. revert s; induction n1; simpl; intros s H1 H2; [inversion H1; subst; exact H2|].
  destruct (step code loc s); [eauto|discriminate]. Qed.

Theorem exec_expr : forall e loc v pre post stk0,
  closed (length loc) e -> eval loc e = Some v ->
  exists n, run n (pre ++ enc_all (comp e) ++ post) loc {| ip := length pre; stk := stk0 |}
            = Some {| ip := length pre + length (enc_all (comp e)); stk := v :: stk0 |}.
Proof.
  induction e as [z|k|a IHa b IHb]; intros loc v pre post stk0 Hc Hev; cbn [comp eval closed] in *.
  - inversion Hev; subst. exists 1%nat. cbn [run]. unfold step. cbn [ip stk].
    rewrite enc_all_one, fetch_at.
    + cbn. rewrite of_to. reflexivity.
    + intros ks H; cbn in H; inversion H; subst; cbn. split; [apply u64_range|exact I].
    + eexists; reflexivity.
  - destruct Hc as [Hk Hr]. exists 1%nat. cbn [run]. unfold step. cbn [ip stk].
    rewrite enc_all_one, fetch_at.
    + cbn. rewrite Nat2N.id, Hev. reflexivity.
    + intros ks H; cbn in H; inversion H; subst; cbn. split; [exact Hr|exact I].
    + eexists; reflexivity.
  - destruct Hc as [Ha Hb].
    destruct (eval loc a) as [x|] eqn:Ea; [|discriminate]. destruct (eval loc b) as [y|] eqn:Eb; [|discriminate].
    inversion Hev; subst v; clear Hev.
    rewrite !enc_all_app, enc_all_one.
    set (ca := enc_all (comp a)) in *. set (cb := enc_all (comp b)) in *.
    destruct (IHa loc x pre (cb ++ enc1 I_add ++ post) stk0 Ha Ea) as [n1 H1].
    destruct (IHb loc y (pre ++ ca) (enc1 I_add ++ post) (x :: stk0) Hb Eb) as [n2 H2].
    exists (n1 + (n2 + 1))%nat.
    replace (pre ++ (ca ++ cb ++ enc1 I_add) ++ post) with (pre ++ ca ++ cb ++ enc1 I_add ++ post) by (rewrite <- !app_assoc; reflexivity).
    eapply run_app; [exact H1|].
    replace (pre ++ ca ++ cb ++ enc1 I_add ++ post) with ((pre ++ ca) ++ cb ++ enc1 I_add ++ post) by (rewrite <- !app_assoc; reflexivity).
    rewrite app_length in H2.
    eapply run_app; [exact H2|].
    cbn [run]. unfold step. cbn [ip stk].
    replace ((pre ++ ca) ++ cb ++ enc1 I_add ++ post) with (((pre ++ ca) ++ cb) ++ enc1 I_add ++ post) by (rewrite <- !app_assoc; reflexivity).
    replace (length pre + length ca + length cb)%nat with (length ((pre ++ ca) ++ cb)) by (rewrite !app_length; lia).
    rewrite fetch_at.
    + cbn. rewrite !app_length. f_equal. f_equal. lia.
    + intros ks H; cbn in H; inversion H; subst; cbn. exact I.
    + eexists; reflexivity.
Qed.
Print Assumptions exec_expr.
