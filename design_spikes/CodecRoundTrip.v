From Coq Require Import NArith ZArith List Lia Bool.
Import ListNotations.
Local Open Scope N_scope.
Ltac Zify.zify_post_hook ::= Z.div_mod_to_equations.

Definition byte := N.
Fixpoint le_bytes (k : nat) (n : N) : list byte :=
  match k with O => [] | S k' => (n mod 256) :: le_bytes k' (n / 256) end.
Fixpoint of_le (bs : list byte) : N :=
  match bs with [] => 0 | b :: r => b + 256 * of_le r end.

Lemma le_bytes_length k n : length (le_bytes k n) = k.
Proof. revert n; induction k; simpl; intros; auto. Qed.

Lemma of_le_le_bytes k n : n < 256 ^ N.of_nat k -> of_le (le_bytes k n) = n.
Proof.
  revert n; induction k as [|k IH]; intros n H.
  - simpl in *. lia.
  - cbn [le_bytes of_le]. rewrite IH.
    + pose proof (N.div_mod n 256). lia.
    + rewrite Nat2N.inj_succ, N.pow_succ_r' in H.
      apply N.div_lt_upper_bound; lia.
Qed.

Definition bytes_ok (bs : list byte) := Forall (fun b => b < 256) bs.
Lemma le_bytes_of_le bs : bytes_ok bs -> le_bytes (length bs) (of_le bs) = bs.
Proof.
  induction 1 as [|b r Hb Hr IH]; [reflexivity|].
  cbn [length le_bytes of_le]. f_equal.
  - rewrite (N.mul_comm 256), N.mod_add by lia. apply N.mod_small; lia.
  - rewrite (N.mul_comm 256), N.div_add by lia. rewrite (N.div_small b) by lia. simpl. exact IH.
Qed.

(* operand kinds *)
Inductive okind := KU8 | KU16 | KU32 | KI32 | KI64 | KF64.
Definition ksize (k : okind) : nat := match k with KU8 => 1 | KU16 => 2 | KU32 | KI32 => 4 | KI64 | KF64 => 8 end%nat.
(* operand as raw unsigned pattern; signed view is a separate lemma *)
Record instr := { op : N; args : list N }.
Definition table_t := N -> option (list okind).

Fixpoint enc_args (ks : list okind) (vs : list N) : option (list byte) :=
  match ks, vs with
  | [], [] => Some []
  | k :: ks', v :: vs' =>
      match enc_args ks' vs' with Some r => Some (le_bytes (ksize k) v ++ r) | None => None end
  | _, _ => None
  end.
Definition encode (T : table_t) (i : instr) : option (list byte) :=
  match T (op i) with
  | None => None
  | Some ks => match enc_args ks (args i) with Some r => Some (op i :: r) | None => None end
  end.
Fixpoint dec_args (ks : list okind) (bs : list byte) : option (list N * nat) :=
  match ks with
  | [] => Some ([], 0%nat)
  | k :: ks' =>
      if Nat.ltb (length bs) (ksize k) then None else
      match dec_args ks' (skipn (ksize k) bs) with
      | Some (vs, n) => Some (of_le (firstn (ksize k) bs) :: vs, (ksize k + n)%nat)
      | None => None
      end
  end.
Definition decode (T : table_t) (bs : list byte) : option (instr * nat) :=
  match bs with
  | [] => None
  | o :: r => match T o with
              | None => None
              | Some ks => match dec_args ks r with
                           | Some (vs, n) => Some ({| op := o; args := vs |}, S n)
                           | None => None end
              end
  end.

Fixpoint wf_args (ks : list okind) (vs : list N) : Prop :=
  match ks, vs with
  | [], [] => True
  | k :: ks', v :: vs' => v < 256 ^ N.of_nat (ksize k) /\ wf_args ks' vs'
  | _, _ => False
  end.

Lemma dec_enc_args ks : forall vs bs rest, wf_args ks vs -> enc_args ks vs = Some bs ->
  dec_args ks (bs ++ rest) = Some (vs, length bs).
Proof.
  induction ks as [|k ks IH]; intros [|v vs] bs rest Hwf Henc; simpl in *; try contradiction; try discriminate.
  - inversion Henc; reflexivity.
  - destruct Hwf as [Hv Hwf]. destruct (enc_args ks vs) as [r|] eqn:E; [|discriminate].
    inversion Henc; subst bs; clear Henc.
    rewrite <- app_assoc.
    assert (L : length (le_bytes (ksize k) v) = ksize k) by apply le_bytes_length.
    rewrite app_length, L.
    destruct (Nat.ltb_spec (ksize k + length (r ++ rest)) (ksize k)); [lia|].
    rewrite <- L at 1. rewrite skipn_app, skipn_all, Nat.sub_diag. simpl.
    rewrite (IH vs r rest Hwf E).
    rewrite <- L at 1. rewrite firstn_app, firstn_all, Nat.sub_diag. simpl. rewrite app_nil_r.
    rewrite of_le_le_bytes by exact Hv. rewrite app_length, L. reflexivity.
Qed.

Theorem decode_encode T i bs rest :
  (forall ks, T (op i) = Some ks -> wf_args ks (args i)) ->
  encode T i = Some bs -> decode T (bs ++ rest) = Some (i, length bs).
Proof.
  unfold encode, decode. intros Hwf H.
  destruct (T (op i)) as [ks|] eqn:E; [|discriminate].
  destruct (enc_args ks (args i)) as [r|] eqn:E2; [|discriminate].
  inversion H; subst bs; clear H. simpl. rewrite E.
  rewrite (dec_enc_args ks (args i) r rest (Hwf ks eq_refl) E2).
  destruct i; reflexivity.
Qed.
Print Assumptions decode_encode.
