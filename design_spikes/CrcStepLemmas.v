From Coq Require Import NArith List Lia Bool.
Import ListNotations.
Local Open Scope N_scope.
Definition POLY : N := 0xEDB88320.
Definition Zs (s : N) : N := if N.odd s then N.lxor (N.shiftr s 1) POLY else N.shiftr s 1.
Definition stepb (s : N) (b : bool) : N := Zs (N.lxor s (if b then 1 else 0)).
Lemma odd_lxor a b : N.odd (N.lxor a b) = xorb (N.odd a) (N.odd b).
Proof. rewrite <- !N.bit0_odd. apply N.lxor_spec. Qed.
Lemma Zs_lin a b : Zs (N.lxor a b) = N.lxor (Zs a) (Zs b).
Proof.
  unfold Zs. rewrite odd_lxor, N.shiftr_lxor.
  destruct (N.odd a), (N.odd b); cbn [xorb].
  - rewrite N.lxor_assoc, (N.lxor_comm POLY), !N.lxor_assoc, N.lxor_nilpotent, N.lxor_0_r. reflexivity.
  - rewrite !N.lxor_assoc. f_equal. apply N.lxor_comm.
  - rewrite N.lxor_assoc. reflexivity.
  - reflexivity.
Qed.
Lemma Zs_inj a b : a < 2^32 -> b < 2^32 -> Zs a = Zs b -> a = b.
Proof.
  intros Ha Hb H.
  assert (Hbit : forall x, x < 2^32 -> N.testbit (Zs x) 31 = N.odd x).
  { intros x Hx. unfold Zs. destruct (N.odd x) eqn:E.
    - rewrite N.lxor_spec, N.shiftr_spec by lia. change (31+1) with 32.
      rewrite (N.bits_above_log2 x 32). reflexivity.
      destruct (N.eq_dec x 0) as [->|Hn]; [discriminate|]. apply N.log2_lt_pow2; lia.
    - rewrite N.shiftr_spec by lia. change (31+1) with 32.
      destruct (N.eq_dec x 0) as [->|Hn]; [reflexivity|].
      apply N.bits_above_log2. apply N.log2_lt_pow2; lia. }
  assert (Ho : N.odd a = N.odd b) by (rewrite <- !Hbit by assumption; now rewrite H).
  unfold Zs in H. rewrite Ho in H.
  assert (Hs : N.shiftr a 1 = N.shiftr b 1).
  { destruct (N.odd b); [|exact H].
    apply (f_equal (fun z => N.lxor z POLY)) in H.
    rewrite !N.lxor_assoc, !N.lxor_nilpotent, !N.lxor_0_r in H. exact H. }
  apply N.bits_inj. intros [|p].
  - rewrite !N.bit0_odd. exact Ho.
  - assert (Hk: forall x, N.testbit x (N.pos p) = N.testbit (N.shiftr x 1) (N.pos p - 1)).
    { intro x. rewrite N.shiftr_spec by lia. f_equal. lia. }
    rewrite !Hk, Hs. reflexivity.
Qed.
Print Assumptions Zs_inj.
